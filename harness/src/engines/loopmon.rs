//! C10 — loops compute the sequential fixed point; every round sees exactly the previous state.
//! C11 — side inputs of a loop are replayed completely and identically every round.
//!
//! C10 behavioural monitor (timing independent): the loop state carries the round number; the
//! first operator of the body tags each element with the round it read from the state handle,
//! every later body operator (after shuffles, on other hosts) re-reads the state and requires
//! `state.round == tag`. A stale or premature read anywhere is a violation even when the final
//! result is unaffected. Results are compared with the sequentially unrolled loop.

use std::collections::BTreeMap;
use std::sync::atomic::{AtomicU64, Ordering};
use std::sync::{Arc, Mutex};
use std::time::Duration;

use renoir::prelude::*;
use renoir::IterationStateHandle;
use serde::{Deserialize, Serialize};
use serde_json::json;

use crate::jobgen::check::check_grammar;
use crate::jobgen::types::{LState, Rec};
use crate::obs::Policy;
use crate::probe::{BStream, BoxExt, Probed, RecProbe, TraceSink};
use crate::report::{Report, Verdict};
use crate::rng::{hash_str, mix, Rng};
use crate::run::{run_job, HostOutcome, Layout, RunOpts};
use crate::Args;

/// Element of the loop workloads: a record and the round tag it was given.
#[derive(Clone, Debug, Serialize, Deserialize, PartialEq, Eq, Hash, PartialOrd, Ord)]
pub struct TRec {
    pub r: Rec,
    pub tag: u32,
}

impl Probed for TRec {
    fn words(&self) -> [u64; 3] {
        [self.r.id, self.tag as u64, self.r.v as u64]
    }
}

const C10_SIDE_V: i64 = -424_242;

#[derive(Clone, Copy, Debug, PartialEq, Eq, Serialize)]
enum BodyOp {
    /// v += state.acc % 7 + 1 (reads the state)
    AddState,
    Shuffle,
    GroupBy,
    /// drops elements with v % m == 0
    Filter(i64),
    /// group_by(k).reduce(sum): one element per key per round
    KeyedSum,
    /// artificial work per element (us), to vary the relative speed of data and state links
    Work(u64),
    /// an inner replay loop (its own state) whose body adds the inner state; the element that
    /// continues is derived from the inner loop's final state
    Nested { rounds: usize, stop_m: i64 },
    /// `side.merge(loop stream)`: a stream from outside the loop is the LEFT input of a binary
    /// block inside the body (its elements are dropped again right after the state check)
    SideLeftMerge,
    /// `side.join(loop stream)` with hash shipping: the loop elements cross hosts into a binary
    /// block whose left input comes from outside the loop (one side element per key: 1:1 join)
    SideLeftJoin,
}

#[derive(Clone, Debug, Serialize)]
struct LoopCase {
    iterate: bool,
    rounds: usize,
    stop_m: i64,
    stop_r: i64,
    body: Vec<BodyOp>,
    n: usize,
    keys: u32,
    pre_shuffle: bool,
}

#[derive(Default)]
struct TagMonitor {
    checks: AtomicU64,
    mismatches: AtomicU64,
    first: Mutex<Option<String>>,
}

fn cond(s: &mut LState, m: i64, r: i64) -> bool {
    s.round += 1;
    s.acc.rem_euclid(m) != r
}

fn f_add_state(mut t: TRec, st: &LState) -> TRec {
    t.r.v = t.r.v.wrapping_add(st.acc.rem_euclid(7) + 1);
    t.r.id = mix(t.r.id, 0xADD);
    t
}

fn build_body(
    s: BStream<TRec>,
    ops: &[BodyOp],
    st: IterationStateHandle<LState>,
    mon: Arc<TagMonitor>,
    mut side: Option<BStream<TRec>>,
) -> BStream<TRec> {
    // first operator of the body: tag with the round read from the state
    let st0 = st.clone();
    let mut s = s
        .map(move |mut t: TRec| {
            t.tag = st0.get().round;
            t
        })
        .boxed();
    for (i, op) in ops.iter().copied().enumerate() {
        s = match op {
            BodyOp::AddState => {
                let st1 = st.clone();
                s.map(move |t| f_add_state(t, st1.get())).boxed()
            }
            BodyOp::Shuffle => s.shuffle().boxed(),
            BodyOp::GroupBy => s.group_by(|t: &TRec| t.r.k).drop_key().boxed(),
            BodyOp::Filter(m) => s.filter(move |t| t.r.v.rem_euclid(m) != 0).boxed(),
            BodyOp::KeyedSum => s
                .group_by(|t: &TRec| t.r.k)
                .reduce(|a, b| {
                    a.r.v = a.r.v.wrapping_add(b.r.v);
                    a.r.id ^= b.r.id;
                    a.tag = a.tag.max(b.tag);
                })
                .drop_key()
                .boxed(),
            BodyOp::Work(us) => s
                .map(move |t| {
                    std::thread::sleep(Duration::from_micros(us));
                    t
                })
                .boxed(),
            BodyOp::Nested { rounds, stop_m } => {
                let mon_in = mon.clone();
                let st_out = st.clone();
                s.shuffle()
                    .replay(
                        rounds,
                        LState::default(),
                        move |s, st_in| build_body(s.boxed(), &[BodyOp::AddState, BodyOp::Shuffle], st_in, mon_in, None),
                        |d: &mut i64, t: TRec| *d = d.wrapping_add(t.r.v),
                        |st: &mut LState, d: i64| st.acc = st.acc.wrapping_add(d),
                        move |st: &mut LState| cond(st, stop_m, 0),
                    )
                    .map(move |fin: LState| TRec { r: Rec { id: mix(fin.round as u64, fin.acc as u64), k: 0, v: fin.acc.rem_euclid(1000) + fin.round as i64 }, tag: st_out.get().round })
                    .boxed()
            }
            BodyOp::SideLeftMerge => match side.take() {
                Some(sd) => sd.merge(s).boxed(),
                None => s,
            },
            BodyOp::SideLeftJoin => match side.take() {
                Some(sd) => sd.join(s, |t: &TRec| t.r.k, |t: &TRec| t.r.k).unkey().map(|(_, (_, t))| t).boxed(),
                None => s,
            },
        };
        // after every operator: re-read the state and compare with the tag
        let st2 = st.clone();
        let mon2 = mon.clone();
        s = s
            .filter(|t: &TRec| t.r.v != C10_SIDE_V)
            .map(move |t: TRec| {
                let now = st2.get().round;
                mon2.checks.fetch_add(1, Ordering::Relaxed);
                if now != t.tag {
                    mon2.mismatches.fetch_add(1, Ordering::Relaxed);
                    let mut f = mon2.first.lock().unwrap();
                    if f.is_none() {
                        *f = Some(format!(
                            "after body operator #{i} ({op:?}): element {} was tagged in round {} but the state read here is of round {now}",
                            t.r.id, t.tag
                        ));
                    }
                }
                t
            })
            .boxed();
    }
    s
}

/// Sequential meaning of the body for one round.
fn ref_body(input: &[TRec], ops: &[BodyOp], st: &LState) -> Vec<TRec> {
    let mut v: Vec<TRec> = input.iter().cloned().map(|mut t| { t.tag = st.round; t }).collect();
    for op in ops {
        v = match *op {
            BodyOp::AddState => v.into_iter().map(|t| f_add_state(t, st)).collect(),
            BodyOp::Shuffle | BodyOp::GroupBy | BodyOp::Work(_) | BodyOp::SideLeftMerge | BodyOp::SideLeftJoin => v,
            BodyOp::Nested { rounds, stop_m } => {
                // sequential meaning of the inner loop: starts from the initial state every time
                let mut ist = LState::default();
                let mut round = 0;
                loop {
                    let out = ref_body(&v, &[BodyOp::AddState, BodyOp::Shuffle], &ist);
                    let delta = out.iter().fold(0i64, |d, t| d.wrapping_add(t.r.v));
                    ist.acc = ist.acc.wrapping_add(delta);
                    round += 1;
                    if !(cond(&mut ist, stop_m, 0) && round < rounds) {
                        break;
                    }
                }
                vec![TRec { r: Rec { id: mix(ist.round as u64, ist.acc as u64), k: 0, v: ist.acc.rem_euclid(1000) + ist.round as i64 }, tag: st.round }]
            }
            BodyOp::Filter(m) => v.into_iter().filter(|t| t.r.v.rem_euclid(m) != 0).collect(),
            BodyOp::KeyedSum => {
                let mut m: BTreeMap<u32, TRec> = BTreeMap::new();
                for t in v {
                    match m.get_mut(&t.r.k) {
                        None => {
                            m.insert(t.r.k, t);
                        }
                        Some(a) => {
                            a.r.v = a.r.v.wrapping_add(t.r.v);
                            a.r.id ^= t.r.id;
                            a.tag = a.tag.max(t.tag);
                        }
                    }
                }
                m.into_values().collect()
            }
        };
    }
    v
}

struct LoopRef {
    final_state: LState,
    rounds: usize,
    /// iterate only: the elements finally emitted
    output: Vec<TRec>,
}

fn ref_loop(c: &LoopCase, input: &[TRec]) -> LoopRef {
    let mut st = LState::default();
    let mut data = input.to_vec();
    let mut round = 0;
    loop {
        let out = ref_body(&data, &c.body, &st);
        let delta = out.iter().fold(0i64, |d, t| d.wrapping_add(t.r.v));
        st.acc = st.acc.wrapping_add(delta);
        round += 1;
        let cont = cond(&mut st, c.stop_m, c.stop_r) && round < c.rounds;
        if c.iterate {
            data = out;
        }
        if !cont {
            return LoopRef { final_state: st, rounds: round, output: if c.iterate { data } else { vec![] } };
        }
    }
}

fn gen_loop_case(rng: &mut Rng, thorough: bool) -> LoopCase {
    let iterate = rng.chance(1, 3);
    let nops = rng.usize(1, 5);
    let mut body = Vec::new();
    for _ in 0..nops {
        body.push(match rng.below(12) {
            0 | 1 => BodyOp::AddState,
            2 | 3 => BodyOp::Shuffle,
            4 => BodyOp::GroupBy,
            5 => BodyOp::Filter(rng.range(2, 6)),
            6 => BodyOp::KeyedSum,
            7 | 8 => BodyOp::Work(rng.below(300) + 1),
            9 if !iterate && !body.iter().any(|b| matches!(b, BodyOp::Nested { .. })) => BodyOp::Nested { rounds: rng.usize(1, 4), stop_m: rng.range(2, 5) },
            10 if !body.contains(&BodyOp::SideLeftMerge) && !body.contains(&BodyOp::SideLeftJoin) => BodyOp::SideLeftMerge,
            11 if !body.contains(&BodyOp::SideLeftMerge) && !body.contains(&BodyOp::SideLeftJoin) => BodyOp::SideLeftJoin,
            _ => BodyOp::AddState,
        });
    }
    // the element after a side input is checked against the state: make sure a state read follows
    if matches!(body.last(), Some(BodyOp::SideLeftMerge | BodyOp::SideLeftJoin)) {
        body.push(BodyOp::AddState);
    }
    // iterate: keep the per-round volume far below the buffering of the feedback cycle
    // (known finding F8 belongs to C04)
    let n = if iterate { rng.usize(0, 40) } else { rng.usize(0, if thorough { 400 } else { 120 }) };
    LoopCase {
        iterate,
        rounds: rng.usize(0, 8),
        stop_m: rng.range(2, 7),
        stop_r: rng.range(0, 2),
        body,
        n,
        keys: *rng.pick(&[1u32, 2, 5, 17]),
        pre_shuffle: rng.chance(1, 2),
    }
}

fn loop_policy(rng: &mut Rng) -> Policy {
    let seed = rng.next_u64();
    match rng.below(10) {
        0 | 1 => Policy::none(),
        // one slow link: what a given block (often the loop leader) sends arrives late on one host
        7 | 8 | 9 => Policy { name: "slow-link-to-one-host".into(), slow_recv_links: vec![(rng.below(6), rng.below(3), rng.below(20_000) + 2_000)], seed, ..Default::default() },
        // the leader / feedback blocks have small ids in these pipelines: slow one block's sends
        2 | 3 => Policy { name: "slow-block-sends".into(), slow_send_blocks: vec![(rng.below(7), rng.below(2000) + 100)], seed, ..Default::default() },
        4 => Policy { name: "slow-block-recvs".into(), slow_recv_blocks: vec![(rng.below(7), rng.below(1500) + 100)], seed, ..Default::default() },
        5 => Policy { name: "jitter".into(), jitter_permille: 150, jitter_max_us: 800, seed, ..Default::default() },
        _ => Policy { name: "slow-network+yield".into(), slow_net_us: 400, yield_permille: 300, seed, ..Default::default() },
    }
}

fn loop_layout(rng: &mut Rng) -> Layout {
    match rng.below(10) {
        0 => Layout::Local(1),
        1 => Layout::Local(2),
        2 => Layout::Local(3),
        3 => Layout::Local(4),
        4 => Layout::Local(7),
        5 => Layout::Remote(vec![1, 1]),
        6 => Layout::Remote(vec![2, 1]),
        7 => Layout::Remote(vec![1, 3, 2]),
        8 => Layout::Remote(vec![1, 1, 1]),
        _ => Layout::Remote(vec![2, 2]),
    }
}

fn loop_batch(rng: &mut Rng) -> BatchMode {
    match rng.below(5) {
        0 => BatchMode::fixed(1024),
        1 => BatchMode::fixed(rng.usize(8, 64)),
        2 => BatchMode::adaptive(1024, Duration::from_millis(rng.below(3) + 1)),
        3 => BatchMode::adaptive(rng.usize(4, 50), Duration::from_millis(rng.below(20) + 1)),
        _ => BatchMode::default(),
    }
}

/// Small loop workload for the sanitizer builds (Miri: local configurations only; TSan: also
/// multi-host in one process). Selected with `--sub sanitizer-local` / `--sub sanitizer-all`.
fn sanitizer_case(rng: &mut Rng, local_only: bool) -> (LoopCase, Layout, Policy) {
    let mut c = gen_loop_case(rng, false);
    c.n = c.n.min(10);
    c.rounds = c.rounds.clamp(2, 3);
    c.body.retain(|b| !matches!(b, BodyOp::Work(_) | BodyOp::Nested { .. }));
    if c.body.is_empty() {
        c.body.push(BodyOp::AddState);
    }
    if !c.body.contains(&BodyOp::Shuffle) {
        c.body.push(BodyOp::Shuffle);
        c.body.push(BodyOp::AddState);
    }
    let layout = if local_only {
        rng.pick(&[Layout::Local(2), Layout::Local(3)]).clone()
    } else {
        rng.pick(&[Layout::Local(2), Layout::Local(4), Layout::Remote(vec![1, 1]), Layout::Remote(vec![2, 1])]).clone()
    };
    (c, layout, Policy::none())
}

pub fn run_c10(args: &Args, report: &mut Report) {
    let rng = Rng::new(args.seed).fork(0xC10).fork(args.shard);
    let sanitizer = args.sub.as_deref().and_then(|s| s.strip_prefix("sanitizer-")).map(|s| s == "local");
    let cases = match sanitizer {
        Some(true) => 3,
        Some(false) => 24,
        None if args.thorough => 260,
        None => 40,
    };
    for case in 0..cases {
        let mut crng = rng.fork(case);
        let (c, layout, policy) = match sanitizer {
            Some(local_only) => sanitizer_case(&mut crng, local_only),
            None => {
                let c = gen_loop_case(&mut crng, args.thorough);
                let layout = loop_layout(&mut crng);
                let policy = loop_policy(&mut crng);
                (c, layout, policy)
            }
        };
        let pname = policy.name.clone();
        let batch = loop_batch(&mut crng);
        let input: Vec<TRec> = (0..c.n as u64)
            .map(|i| TRec { r: Rec { id: i + 1, k: crng.below(c.keys as u64) as u32, v: crng.range(-20, 20) }, tag: 0 })
            .collect();
        let want = ref_loop(&c, &input);
        let mon = Arc::new(TagMonitor::default());
        if case < args.skip {
            continue;
        }
        {
            let w = json!({"engine":"loopmon.rounds","case":case,"shard":args.shard,"seed":args.seed,"loop":c,"layout":layout.name(),"batch":format!("{batch:?}"),"policy":pname});
            crate::report::RESUME_FROM.store(case + 1, Ordering::SeqCst);
            crate::run::on_no_return(move |end, census, r| {
                let mut d = w.clone();
                d["census"] = crate::run::census_json(census);
                if *end == crate::run::JobEnd::Deadlocked {
                    d["error"] = json!("the loop never stops: quiescence certificate (every live engine thread parked, no event across three snapshots)");
                    r.case(Verdict::Violated, None, || d);
                } else {
                    d["error"] = json!(format!("watchdog fired without a quiescence certificate ({end:?})"));
                    r.case(Verdict::Inconclusive, None, || d);
                }
            });
        }
        let (c2, input2, mon2) = (c.clone(), Arc::new(input.clone()), mon.clone());
        let res = run_job(
            &layout,
            RunOpts { policy, ..Default::default() },
            move |ctx, _| {
                let d = input2.clone();
                let src = ctx
                    .stream_par_iter(move |i: u64, n: u64| {
                        let d = d.clone();
                        (0..d.len()).filter(move |j| (*j as u64) % n == i).map(move |j| d[j].clone())
                    })
                    .batch_mode(batch);
                let src = if c2.pre_shuffle { src.shuffle().boxed() } else { src.boxed() };
                let body = c2.body.clone();
                let mon3 = mon2.clone();
                let (m, r) = (c2.stop_m, c2.stop_r);
                // a small stream from outside the loop, for bodies with a (left) side input
                let side = (body.contains(&BodyOp::SideLeftMerge) || body.contains(&BodyOp::SideLeftJoin)).then(|| {
                    // one side element per key 0..=16 (the loop keys are below 17)
                    ctx.stream_iter((0..17u64).map(|i| TRec { r: Rec { id: 900_000 + i, k: i as u32, v: C10_SIDE_V }, tag: 0 }))
                        .batch_mode(batch)
                        .shuffle()
                        .boxed()
                });
                if c2.iterate {
                    let (st, out) = src.iterate(
                        c2.rounds,
                        LState::default(),
                        move |s, st| build_body(s.boxed(), &body, st, mon3, side),
                        |d: &mut i64, t: TRec| *d = d.wrapping_add(t.r.v),
                        |st: &mut LState, d: i64| st.acc = st.acc.wrapping_add(d),
                        move |st: &mut LState| cond(st, m, r),
                    );
                    (st.collect_vec(), Some(out.collect_vec()))
                } else {
                    let st = src.replay(
                        c2.rounds,
                        LState::default(),
                        move |s, st| build_body(s.boxed(), &body, st, mon3, side),
                        |d: &mut i64, t: TRec| *d = d.wrapping_add(t.r.v),
                        |st: &mut LState, d: i64| st.acc = st.acc.wrapping_add(d),
                        move |st: &mut LState| cond(st, m, r),
                    );
                    (st.collect_vec(), None)
                }
            },
            |(st, out), _| (st.get(), out.map(|o| o.get())),
        );
        crate::run::clear_no_return();
        let h = mix(hash_str(&format!("{c:?}")), hash_str(&format!("{}{batch:?}{pname}", layout.name())));
        let ctr = &res.log.counters;
        let detail = |err: Option<String>| json!({"engine":"loopmon.rounds","case":case,"shard":args.shard,"seed":args.seed,"loop":c,
            "layout":layout.name(),"batch":format!("{batch:?}"),"policy":pname,"expected_rounds":want.rounds,
            "expected_final_state":format!("{:?}", want.final_state),"tag_checks":mon.checks.load(Ordering::Relaxed),"error":err});
        if !res.all_ok() {
            let msgs = res.panic_messages().join(" | ");
            let env_problem = msgs.contains("Failed to bind") || msgs.contains("Failed to connect") || msgs.is_empty();
            let v = if env_problem { Verdict::Inconclusive } else { Verdict::Violated };
            report.case(v, (!env_problem).then_some(h), || detail(Some(format!("a valid loop job crashed instead of terminating: {:?} {msgs}", res.end))));
            continue;
        }
        report.count("loop_jobs", 1);
        report.count("rounds_expected", want.rounds as u64);
        report.count("tag_checks", mon.checks.load(Ordering::Relaxed));
        report.count("state_waits", ctr.state_waits.load(Ordering::Relaxed));
        report.count("state_waits_that_blocked", ctr.state_waits_blocked.load(Ordering::Relaxed));
        report.count("state_sets", ctr.state_sets.load(Ordering::Relaxed));
        report.seen("layouts", layout.name());
        report.seen("policies", pname.clone());
        report.seen("loop_kinds", if c.iterate { "iterate" } else { "replay" });
        let mut errs = Vec::new();
        if mon.mismatches.load(Ordering::Relaxed) > 0 {
            errs.push(format!("{} state reads of a wrong round; first: {}", mon.mismatches.load(Ordering::Relaxed), mon.first.lock().unwrap().clone().unwrap_or_default()));
        }
        let mut states = Vec::new();
        let mut outs: Vec<TRec> = Vec::new();
        let mut out_holders = 0;
        for hst in res.hosts.iter().flatten() {
            if let HostOutcome::Ok((st, out)) = hst {
                if let Some(s) = st {
                    states.extend(s.iter().cloned());
                }
                if let Some(Some(o)) = out {
                    out_holders += 1;
                    outs.extend(o.iter().cloned());
                }
            }
        }
        if states.len() != 1 {
            errs.push(format!("the loop emitted {} final states (expected 1): {states:?}", states.len()));
        } else if states[0] != want.final_state {
            errs.push(format!("final state {:?}, the sequential fixed point is {:?} after {} rounds", states[0], want.final_state, want.rounds));
        }
        if c.iterate {
            let mut w = want.output.clone();
            w.sort();
            outs.sort();
            if out_holders != 1 {
                errs.push(format!("{out_holders} hosts hold the iterate output"));
            } else if outs != w {
                errs.push(format!("iterate emitted {} elements, the last round of the sequential meaning has {}", outs.len(), w.len()));
            }
        }
        if errs.is_empty() {
            report.case(Verdict::Held, (want.rounds >= 2 && c.n > 0).then_some(h), || detail(None));
        } else {
            report.case(Verdict::Violated, Some(h), || detail(Some(errs.join(" || "))));
        }
    }
}

// ---------------------------------------------------------------------------------------------
// C11

#[derive(Clone, Copy, Debug, PartialEq, Eq, Serialize)]
enum SideKind {
    Merge,
    Join,
    Zip,
}

const SIDE_BASE: u64 = 1_000_000;
/// Side elements are recognised by this value (loop elements have v in 1..=9).
const SIDE_V: i64 = -777;

#[derive(Clone, Debug, Serialize)]
struct SideCase {
    iterate: bool,
    kind: SideKind,
    rounds: usize,
    n: usize,
    side_n: usize,
    keys: u32,
    /// per-element work in the body (us): makes a round slower than the adaptive batch delay
    work_us: u64,
    side_shuffled: bool,
    /// the outside stream is the left operand of the binary operator
    side_left: bool,
}

pub fn run_c11(args: &Args, report: &mut Report) {
    let rng = Rng::new(args.seed).fork(0xC11).fork(args.shard);
    let cases = if args.thorough { 200 } else { 32 };
    for case in 0..cases {
        let mut crng = rng.fork(case);
        let kind = *crng.pick(&[SideKind::Merge, SideKind::Merge, SideKind::Join, SideKind::Zip]);
        let c = SideCase {
            iterate: kind == SideKind::Merge && crng.chance(1, 3),
            kind,
            rounds: crng.usize(1, 8),
            n: crng.usize(0, 40),
            side_n: *crng.pick(&[0usize, 1, 3, 10, 60, 300, 1200]),
            keys: *crng.pick(&[1u32, 3, 10]),
            work_us: *crng.pick(&[0u64, 0, 50, 400, 3000]),
            side_shuffled: true,
            side_left: crng.chance(1, 2),
        };
        let layout = loop_layout(&mut crng);
        // adaptive batching with a delay below the round time is what real jobs have
        let batch = match crng.below(4) {
            0 => BatchMode::adaptive(1024, Duration::from_millis(1)),
            1 => BatchMode::adaptive(crng.usize(2, 40), Duration::from_millis(crng.below(5) + 1)),
            2 => BatchMode::fixed(crng.usize(1, 64)),
            _ => BatchMode::default(),
        };
        let policy = loop_policy(&mut crng);
        let pname = policy.name.clone();
        let input: Vec<Rec> = (0..c.n as u64).map(|i| Rec { id: i + 1, k: crng.below(c.keys as u64) as u32, v: crng.range(1, 9) }).collect();
        let side: Vec<Rec> = (0..c.side_n as u64).map(|i| Rec { id: SIDE_BASE + i, k: crng.below(c.keys as u64) as u32, v: SIDE_V }).collect();
        let traces = TraceSink::new();
        if case < args.skip {
            continue;
        }
        {
            let w = json!({"engine":"loopmon.side_input","case":case,"shard":args.shard,"seed":args.seed,"loop":c,"layout":layout.name(),"batch":format!("{batch:?}"),"policy":pname});
            crate::report::RESUME_FROM.store(case + 1, Ordering::SeqCst);
            crate::run::on_no_return(move |end, census, r| {
                let mut d = w.clone();
                d["census"] = crate::run::census_json(census);
                if *end == crate::run::JobEnd::Deadlocked {
                    d["error"] = json!("the loop with a side input does not terminate: quiescence certificate (every live engine thread parked, no event across three snapshots)");
                    r.case(Verdict::Violated, None, || d);
                } else {
                    d["error"] = json!(format!("watchdog fired without a quiescence certificate ({end:?})"));
                    r.case(Verdict::Inconclusive, None, || d);
                }
            });
        }
        let (c2, in2, side2, tr2) = (c.clone(), Arc::new(input.clone()), Arc::new(side.clone()), traces.clone());
        let res = run_job(
            &layout,
            RunOpts { policy, ..Default::default() },
            move |ctx, _| {
                let d = in2.clone();
                let src = ctx
                    .stream_par_iter(move |i: u64, n: u64| {
                        let d = d.clone();
                        (0..d.len()).filter(move |j| (*j as u64) % n == i).map(move |j| d[j].clone())
                    })
                    .batch_mode(batch)
                    .shuffle()
                    .boxed();
                let sd = side2.clone();
                let side_stream = ctx.stream_iter((*sd).clone().into_iter()).batch_mode(batch).shuffle().boxed();
                let tr3 = tr2.clone();
                let work = c2.work_us;
                let kind = c2.kind;
                let side_left = c2.side_left;
                let body = move |s: BStream<Rec>, _st: IterationStateHandle<LState>| -> BStream<Rec> {
                    let s = if work > 0 {
                        s.map(move |r| {
                            std::thread::sleep(Duration::from_micros(work));
                            r
                        })
                        .boxed()
                    } else {
                        s
                    };
                    match kind {
                        SideKind::Merge => (if side_left { side_stream.merge(s).boxed() } else { s.merge(side_stream).boxed() })
                            .probed(RecProbe::new(1, "after-merge", &tr3))
                            // side elements are observed and then dropped, so that an iterate
                            // loop does not feed them back
                            .filter(|r| r.v != SIDE_V)
                            .map(|r| Rec { id: mix(r.id, 1), ..r })
                            .boxed(),
                        SideKind::Join => (if side_left {
                            side_stream.join(s, |r: &Rec| r.k, |r: &Rec| r.k).unkey().map(|(k, (sd, l))| (k, (l, sd))).boxed()
                        } else {
                            s.join(side_stream, |r: &Rec| r.k, |r: &Rec| r.k).unkey().boxed()
                        })
                            .map(|(_, (l, r))| Rec { id: mix(l.id, r.id), k: r.id as u32, v: l.v })
                            .probed(RecProbe::new(1, "after-join", &tr3))
                            .boxed(),
                        SideKind::Zip => (if side_left { side_stream.zip(s).map(|(sd, l)| (l, sd)).boxed() } else { s.zip(side_stream).boxed() })
                            .map(|(l, r)| Rec { id: r.id, k: l.k, v: l.v })
                            .probed(RecProbe::new(1, "after-zip", &tr3))
                            .boxed(),
                    }
                };
                let rounds = c2.rounds;
                if c2.iterate {
                    let (st, out) = src.iterate(
                        rounds,
                        LState::default(),
                        move |s, st| body(s.boxed(), st),
                        |d: &mut i64, r: Rec| *d = d.wrapping_add(r.v),
                        |st: &mut LState, d: i64| st.acc = st.acc.wrapping_add(d),
                        |st: &mut LState| { st.round += 1; true },
                    );
                    out.for_each(|_| {});
                    st.collect_vec()
                } else {
                    src.replay(
                        rounds,
                        LState::default(),
                        move |s, st| body(s.boxed(), st),
                        |d: &mut i64, r: Rec| *d = d.wrapping_add(r.v),
                        |st: &mut LState, d: i64| st.acc = st.acc.wrapping_add(d),
                        |st: &mut LState| { st.round += 1; true },
                    )
                    .collect_vec()
                }
            },
            |st, _| st.get(),
        );
        crate::run::clear_no_return();
        let h = mix(hash_str(&format!("{c:?}")), hash_str(&format!("{}{batch:?}{pname}", layout.name())));
        let detail = |err: Option<String>| json!({"engine":"loopmon.side_input","case":case,"shard":args.shard,"seed":args.seed,"loop":c,
            "layout":layout.name(),"batch":format!("{batch:?}"),"policy":pname,"error":err});
        if !res.all_ok() {
            // "the loop still terminates": a certificate is handled by the runner (exit 3); a
            // crash of a valid job is reported here
            let msgs = res.panic_messages().join(" | ");
            let env_problem = msgs.contains("Failed to bind") || msgs.contains("Failed to connect") || msgs.is_empty();
            let v = if env_problem { Verdict::Inconclusive } else { Verdict::Violated };
            report.case(v, (!env_problem).then_some(h), || detail(Some(format!("a valid loop job with a side input crashed instead of terminating: {:?} {msgs}", res.end))));
            continue;
        }
        let rounds = c.rounds.max(1);
        let mut errs = Vec::new();
        // per replica: grammar, then per round the side elements seen
        let all = traces.take();
        let mut per_round_side: Vec<Vec<u64>> = vec![Vec::new(); rounds];
        let mut per_round_pairs: Vec<usize> = vec![0; rounds];
        let mut replicas = 0;
        for t in &all {
            replicas += 1;
            let (iters, fs) = check_grammar(t);
            for f in fs {
                errs.push(format!("[{:?}] {}", f.class, f.msg));
            }
            if iters.len() != rounds {
                errs.push(format!("replica {:?} of the body saw {} rounds, expected {rounds}", t.ctx.coord, iters.len()));
                continue;
            }
            for (i, it) in iters.iter().enumerate() {
                per_round_pairs[i] += it.len();
                match c.kind {
                    SideKind::Merge => per_round_side[i].extend(it.iter().filter(|r| r.v == SIDE_V).map(|r| r.id)),
                    SideKind::Join => {}
                    SideKind::Zip => per_round_side[i].extend(it.iter().map(|r| r.id)),
                }
            }
        }
        let want_side: Vec<u64> = side.iter().map(|r| r.id).collect();
        if errs.is_empty() {
            for (i, got) in per_round_side.iter_mut().enumerate() {
                got.sort();
                match c.kind {
                    SideKind::Merge => {
                        if *got != want_side {
                            let dup = got.windows(2).filter(|w| w[0] == w[1]).count();
                            errs.push(format!("round {i}: the body saw {} side elements ({dup} duplicates), the side input has {}", got.len(), want_side.len()));
                        }
                    }
                    SideKind::Join => {
                        // every (loop element, side element) pair with equal key, once
                        let want_pairs: usize = input.iter().map(|l| side.iter().filter(|s| s.k == l.k).count()).sum();
                        if per_round_pairs[i] != want_pairs {
                            errs.push(format!("round {i}: join with the side input produced {} pairs, expected {want_pairs}", per_round_pairs[i]));
                        }
                    }
                    SideKind::Zip => {
                        let want_pairs = input.len().min(side.len());
                        let dup = got.windows(2).filter(|w| w[0] == w[1]).count();
                        if per_round_pairs[i] != want_pairs || dup > 0 {
                            errs.push(format!("round {i}: zip with the side input produced {} pairs ({dup} side elements used twice), expected {want_pairs}", per_round_pairs[i]));
                        }
                    }
                }
            }
        }
        let states: Vec<LState> = res.hosts.iter().flatten().filter_map(|h| match h { HostOutcome::Ok(Some(v)) => Some(v.clone()), _ => None }).flatten().collect();
        if states.len() != 1 {
            errs.push(format!("{} final states (expected 1)", states.len()));
        } else if states[0].round as usize != rounds {
            errs.push(format!("the loop ran {} rounds, expected {rounds}", states[0].round));
        }
        report.count("side_input_jobs", 1);
        report.count("rounds_x_replicas_compared", (rounds * replicas) as u64);
        report.seen("side_kinds", format!("{:?}{}", c.kind, if c.iterate { "/iterate" } else { "/replay" }));
        report.seen("side_sizes", format!("{}", c.side_n));
        report.seen("layouts", layout.name());
        if errs.is_empty() {
            report.case(Verdict::Held, (rounds >= 2 && c.side_n > 0).then_some(h), || detail(None));
        } else {
            report.case(Verdict::Violated, Some(h), || detail(Some(errs.iter().take(4).cloned().collect::<Vec<_>>().join(" || "))));
        }
    }
}
