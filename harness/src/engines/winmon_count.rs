//! C12 — count windows are exactly the sliding groups [jS, jS+N) of each key's arrival sequence.
//!
//! Two workloads:
//!  * direct: the real `CountWindow::build(..)` manager is driven through `process`, exhaustively
//!    for 1 <= S <= N <= 8, lengths 0..=40, exact / non-exact, 1..=3 iterations, and randomly
//!    beyond; the oracle is the sliding-group model written from the property statement;
//!  * end-to-end: keyed pipelines with one producer (so per-key arrival order is fixed) run under
//!    several layouts and batch modes with every window aggregator; the oracle applies the
//!    aggregator to exactly the model's groups.

use std::collections::BTreeMap;

use renoir::operator::window::{
    CountWindow, WindowAccumulator, WindowDescription, WindowManager, WindowResult,
};
use renoir::operator::StreamElement;
use renoir::BatchMode;
use serde_json::json;

use crate::report::{Report, Verdict};
use crate::rng::{mix, Rng};
use crate::run::{run_job, HostOutcome, Layout, RunOpts};
use crate::Args;

#[derive(Clone, Default)]
struct IdCollector(Vec<u64>);

impl WindowAccumulator for IdCollector {
    type In = u64;
    type Out = Vec<u64>;
    fn process(&mut self, el: u64) {
        self.0.push(el);
    }
    fn output(self) -> Vec<u64> {
        self.0
    }
}

use crate::winmodel::count_model as model;

struct DirectCase {
    n: usize,
    s: usize,
    exact: bool,
    lens: Vec<usize>,
    timestamped: bool,
}

fn run_direct(c: &DirectCase) -> Result<u64, String> {
    let mut mgr = CountWindow::new(c.n, c.s, c.exact).build(IdCollector::default());
    let mut next_id = 1u64;
    let mut groups = 0u64;
    for (it, &len) in c.lens.iter().enumerate() {
        let (per, end) = model(c.n, c.s, c.exact, len);
        let base = next_id;
        for i in 0..len {
            let id = next_id;
            next_id += 1;
            let el = if c.timestamped {
                StreamElement::Timestamped(id, (id as i64) * 3)
            } else {
                StreamElement::Item(id)
            };
            // batch flushes and watermarks may arrive at any point and never produce or discard
            // anything
            if (id + c.n as u64) % 3 == 1 {
                if mgr.process(StreamElement::FlushBatch).is_some() {
                    return Err(format!("iteration {it}: FlushBatch before element #{i} produced a window"));
                }
                if c.timestamped && mgr.process(StreamElement::Watermark(id as i64 * 3 - 1)).is_some() {
                    return Err(format!("iteration {it}: a watermark before element #{i} produced a count window"));
                }
            }
            let out: Option<WindowResult<Vec<u64>>> = mgr.process(el);
            let want: Option<Vec<u64>> =
                per[i].map(|(a, b)| (a..b).map(|x| base + x as u64).collect());
            let got = out.as_ref().map(|r| r.item().clone());
            if got != want {
                return Err(format!(
                    "iteration {it}, after element #{i}: got {got:?}, expected {want:?}"
                ));
            }
            if let Some(r) = out {
                groups += 1;
                if c.timestamped {
                    let maxts = r.item().iter().map(|&x| x as i64 * 3).max();
                    match r {
                        WindowResult::Timestamped(_, ts) if Some(ts) == maxts => {}
                        other => {
                            return Err(format!(
                                "iteration {it}, element #{i}: result timestamp {other:?} != max element ts {maxts:?}"
                            ))
                        }
                    }
                }
            }
        }
        // watermarks and batch flushes never produce anything
        if mgr.process(StreamElement::FlushBatch).is_some() {
            return Err(format!("iteration {it}: FlushBatch produced a window"));
        }
        let out = mgr.process(StreamElement::FlushAndRestart);
        let want: Option<Vec<u64>> = end.map(|(a, b)| (a..b).map(|x| base + x as u64).collect());
        let got = out.map(|r| r.unwrap_item());
        if got != want {
            return Err(format!(
                "iteration {it}, at FlushAndRestart (len {len}): got {got:?}, expected {want:?}"
            ));
        }
        if want.is_some() {
            groups += 1;
        }
    }
    // nothing may be left for Terminate
    if let Some(r) = mgr.process(StreamElement::Terminate) {
        return Err(format!("Terminate produced a leftover window {:?}", r.unwrap_item()));
    }
    Ok(groups)
}

fn direct(args: &Args, report: &mut Report) {
    let mut idx = 0u64;
    let mine = |idx: u64| idx % args.shards == args.shard;
    let mut check = |c: DirectCase, report: &mut Report, exhaustive: bool| {
        let h = mix(
            mix(c.n as u64, c.s as u64),
            mix(c.exact as u64 + 2 * c.timestamped as u64, c.lens.iter().fold(7, |a, &l| mix(a, l as u64))),
        );
        let nontrivial = c.lens.iter().any(|&l| l >= c.n || (!c.exact && l > 0));
        let r = run_direct(&c);
        report.count(if exhaustive { "direct_exhaustive_cases" } else { "direct_random_cases" }, 1);
        let detail = |msg: Option<&String>| {
            json!({"engine":"winmon_count.direct","size":c.n,"slide":c.s,"exact":c.exact,
                   "iteration_lengths":c.lens,"timestamped":c.timestamped,"error":msg})
        };
        match r {
            Ok(groups) => {
                report.count("direct_groups_checked", groups);
                report.case(Verdict::Held, nontrivial.then_some(h), || detail(None));
            }
            Err(e) => report.case(Verdict::Violated, Some(h), || detail(Some(&e))),
        }
    };
    // exhaustive sub-space
    for n in 1..=8usize {
        for s in 1..=n {
            for exact in [true, false] {
                for len in 0..=40usize {
                    for ts in [false, true] {
                        if mine(idx) {
                            check(DirectCase { n, s, exact, lens: vec![len], timestamped: ts }, report, true);
                        }
                        idx += 1;
                    }
                }
                // 2 and 3 iterations over boundary lengths
                let mut ls = vec![0, 1, n.saturating_sub(1), n, n + 1, n + s, 2 * n + 1, 40];
                ls.sort();
                ls.dedup();
                for &l1 in &ls {
                    for &l2 in &ls {
                        if mine(idx) {
                            check(DirectCase { n, s, exact, lens: vec![l1, l2], timestamped: false }, report, true);
                        }
                        idx += 1;
                        for &l3 in &[0usize, n, n + s + 1] {
                            if mine(idx) {
                                check(DirectCase { n, s, exact, lens: vec![l1, l2, l3], timestamped: true }, report, true);
                            }
                            idx += 1;
                        }
                    }
                }
            }
        }
    }
    // random beyond
    let mut rng = Rng::new(args.seed).fork(0xC12).fork(args.shard);
    let randoms = if args.thorough { 4000 } else { 150 };
    for _ in 0..randoms {
        let n = rng.usize(1, 64);
        let s = rng.usize(1, n);
        let iters = rng.usize(1, 4);
        let maxlen = if args.thorough { 10_000 } else { 1500 };
        let lens = (0..iters)
            .map(|_| match rng.below(4) {
                0 => rng.usize(0, n + 1),
                1 => n * rng.usize(1, 5) + rng.usize(0, s),
                _ => rng.usize(0, maxlen),
            })
            .collect();
        check(
            DirectCase { n, s, exact: rng.chance(1, 2), lens, timestamped: rng.chance(1, 2) },
            report,
            false,
        );
    }
}

// ---------------------------------------------------------------------------------------------
// end-to-end

const AGGS: &[&str] = &["collect", "fold", "fold_first", "count", "sum", "min", "max", "first", "last"];

fn apply(agg: &str, g: &[u64]) -> Vec<u64> {
    match agg {
        "collect" => g.to_vec(),
        "fold" => vec![g.iter().fold(17u64, |a, &x| a.wrapping_mul(31).wrapping_add(x))],
        "fold_first" => vec![g[1..].iter().fold(g[0], |a, &x| a.wrapping_mul(31).wrapping_add(x))],
        "count" => vec![g.len() as u64],
        "sum" => vec![g.iter().sum()],
        "min" => vec![*g.iter().min().unwrap()],
        "max" => vec![*g.iter().max().unwrap()],
        "first" => vec![g[0]],
        "last" => vec![*g.last().unwrap()],
        _ => unreachable!(),
    }
}

fn batch_modes(rng: &mut Rng) -> BatchMode {
    match rng.below(6) {
        0 => BatchMode::single(),
        1 => BatchMode::fixed(1),
        2 => BatchMode::fixed(rng.usize(2, 9)),
        3 => BatchMode::fixed(1024),
        4 => BatchMode::adaptive(rng.usize(1, 100), std::time::Duration::from_millis(rng.below(20) + 1)),
        _ => BatchMode::default(),
    }
}

fn e2e(args: &Args, report: &mut Report) {
    let mut rng = Rng::new(args.seed).fork(0xC12E).fork(args.shard);
    let cases = if args.thorough { 160 } else { 14 };
    let layouts = [
        Layout::Local(1),
        Layout::Local(3),
        Layout::Local(4),
        Layout::Remote(vec![2, 1]),
        Layout::Remote(vec![1, 2, 2]),
    ];
    for _ in 0..cases {
        let n = rng.usize(1, 6);
        let s = rng.usize(1, n);
        let exact = rng.chance(1, 2);
        let keys = rng.usize(1, 7) as u64;
        let len = rng.usize(0, 120);
        let agg = *rng.pick(AGGS);
        // input: (key, value) with unique values; value order randomised so min/max/first differ
        let mut vals: Vec<u64> = (1..=len as u64).map(|x| x * 7 % 1009 + x * 1009).collect();
        rng.shuffle(&mut vals);
        let input: Vec<(u64, u64)> = vals.iter().map(|&v| (rng.below(keys), v)).collect();
        // expected: per key, the model's groups in order
        let mut per_key: BTreeMap<u64, Vec<u64>> = BTreeMap::new();
        for (k, v) in &input {
            per_key.entry(*k).or_default().push(*v);
        }
        let mut expected: BTreeMap<u64, Vec<Vec<u64>>> = BTreeMap::new();
        for (k, seq) in &per_key {
            let (per, end) = model(n, s, exact, seq.len());
            let mut gs: Vec<Vec<u64>> = per
                .iter()
                .flatten()
                .map(|&(a, b)| apply(agg, &seq[a..b]))
                .collect();
            if let Some((a, b)) = end {
                gs.push(apply(agg, &seq[a..b]));
            }
            if !gs.is_empty() {
                expected.insert(*k, gs);
            }
        }
        let layout = rng.pick(&layouts).clone();
        let bm = batch_modes(&mut rng);
        let input2 = input.clone();
        let res = run_job(
            &layout,
            RunOpts::default(),
            move |ctx, _h| {
                let st = ctx
                    .stream_iter(input2.clone().into_iter())
                    .batch_mode(bm)
                    .group_by(|x: &(u64, u64)| x.0)
                    .map(|(_, x)| x.1)
                    .window(CountWindow::new(n, s, exact));
                let out = match agg {
                    "collect" => st.map(|v: Vec<u64>| v).collect_vec(),
                    "fold" => st
                        .fold(17u64, |a: &mut u64, x: u64| *a = a.wrapping_mul(31).wrapping_add(x))
                        .map(|(_, x)| vec![x])
                        .collect_vec(),
                    "fold_first" => st
                        .fold_first(|a: &mut u64, x: u64| *a = a.wrapping_mul(31).wrapping_add(x))
                        .map(|(_, x)| vec![x])
                        .collect_vec(),
                    "count" => st.count().map(|(_, x)| vec![x as u64]).collect_vec(),
                    "sum" => st.sum::<u64>().map(|(_, x)| vec![x]).collect_vec(),
                    "min" => st.min().map(|(_, x)| vec![x]).collect_vec(),
                    "max" => st.max().map(|(_, x)| vec![x]).collect_vec(),
                    "first" => st.first().map(|(_, x)| vec![x]).collect_vec(),
                    "last" => st.last().map(|(_, x)| vec![x]).collect_vec(),
                    _ => unreachable!(),
                };
                out
            },
            |out, _h| out.get(),
        );
        let h = mix(
            mix(n as u64 * 100 + s as u64, exact as u64 * 1000 + keys * 10),
            mix(len as u64, crate::rng::hash_str(agg) ^ crate::rng::hash_str(&layout.name())),
        );
        let detail = |err: Option<String>| {
            json!({"engine":"winmon_count.e2e","size":n,"slide":s,"exact":exact,"keys":keys,
                   "input_len":len,"aggregator":agg,"layout":layout.name(),"batch_mode":format!("{bm:?}"),
                   "input": if len <= 40 { json!(input) } else { json!(null) },
                   "error":err})
        };
        if !res.all_ok() {
            report.case(Verdict::Inconclusive, None, || {
                detail(Some(format!("job failed: {:?} {:?}", res.end, res.panic_messages())))
            });
            continue;
        }
        let mut got: BTreeMap<u64, Vec<Vec<u64>>> = BTreeMap::new();
        let mut holders = 0;
        for hst in &res.hosts {
            if let Some(HostOutcome::Ok(Some(v))) = hst {
                holders += 1;
                for (k, g) in v {
                    got.entry(*k).or_default().push(g.clone());
                }
            }
        }
        let nontrivial = expected.values().map(|g| g.len()).sum::<usize>() >= 2;
        report.count("e2e_jobs", 1);
        report.count("e2e_groups_checked", expected.values().map(|g| g.len() as u64).sum());
        report.seen("e2e_aggregators", agg);
        report.seen("e2e_layouts", layout.name());
        if holders != 1 {
            report.case(Verdict::Violated, Some(h), || {
                detail(Some(format!("{holders} hosts hold the sink result (expected 1)")))
            });
        } else if got != expected {
            report.case(Verdict::Violated, Some(h), || {
                detail(Some(format!("per-key window results differ: got {got:?}, expected {expected:?}")))
            });
        } else {
            report.case(Verdict::Held, nontrivial.then_some(h), || detail(None));
        }
    }
}

pub fn run(args: &Args, report: &mut Report) {
    match args.sub.as_deref() {
        Some("direct") => direct(args, report),
        Some("e2e") => e2e(args, report),
        _ => {
            direct(args, report);
            e2e(args, report);
        }
    }
}
