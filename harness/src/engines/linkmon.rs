//! Offline checkers over the link log recorded by the `verif` hooks.
//!
//! C02: for every (producer replica -> receiver endpoint) the flattened sequence of received
//!      element digests (kind, timestamp, payload hash) equals the sequence handed to
//!      `NetworkSender::send`; nothing is received on a link that was not sent on it.
//! C03: for every job-graph edge whose connection kind the harness knows (it built the pipeline)
//!      the routing rule of that kind holds, and control elements fan out to every link.

use std::collections::{BTreeMap, BTreeSet, HashMap};
use std::sync::{Arc, Mutex};

use renoir::prelude::*;
use renoir::verif::{
    payload_hash, ElemDigest, KIND_FLUSH_AND_RESTART, KIND_ITEM, KIND_TERMINATE, KIND_TIMESTAMPED,
    KIND_WATERMARK,
};
use serde_json::json;

use crate::jobgen::gen::{gen_program, random_batch, Focus, GenCfg};
use crate::jobgen::types::*;
use crate::obs::{per_link, Ep, JobLog, C3};
use crate::probe::{BStream, BoxExt, RecProbe, TraceSink};
use crate::report::{Report, Verdict};
use crate::rng::{hash_str, mix, Rng};
use crate::run::{run_job, Layout, RunOpts};
use crate::Args;

#[derive(Default, Debug)]
pub struct LinkStats {
    pub links: u64,
    pub tcp_links: u64,
    pub elements: u64,
    pub batches: u64,
    pub max_batches_per_link: u64,
    pub control_elements: u64,
}

/// C02 oracle.
pub fn check_links(log: &JobLog) -> (Vec<String>, LinkStats) {
    let (sent, recv) = per_link(log);
    let mut errs = Vec::new();
    let mut st = LinkStats::default();
    for (key, (remote, s, batches)) in &sent {
        st.links += 1;
        if *remote {
            st.tcp_links += 1;
        }
        st.elements += s.len() as u64;
        st.batches += batches;
        st.max_batches_per_link = st.max_batches_per_link.max(*batches);
        st.control_elements += s.iter().filter(|e| e.kind != KIND_ITEM && e.kind != KIND_TIMESTAMPED).count() as u64;
        match recv.get(key) {
            None => {
                if !s.is_empty() {
                    errs.push(format!("link {:?} -> {:?}: {} elements sent, nothing received", key.0, key.1, s.len()));
                }
            }
            Some((r, _)) => {
                if r != s {
                    let pos = r.iter().zip(s.iter()).position(|(a, b)| a != b).unwrap_or(r.len().min(s.len()));
                    let what = if r.len() < s.len() && r[..] == s[..r.len()] {
                        format!("{} trailing elements lost", s.len() - r.len())
                    } else if r.len() > s.len() && r[..s.len()] == s[..] {
                        format!("{} extra elements received", r.len() - s.len())
                    } else {
                        let mut a = r.clone();
                        let mut b = s.clone();
                        a.sort_by_key(|e| (e.kind, e.ts, e.hash));
                        b.sort_by_key(|e| (e.kind, e.ts, e.hash));
                        if a == b { "same elements, different order".to_string() } else { "content differs (lost, duplicated or altered elements)".to_string() }
                    };
                    errs.push(format!(
                        "link {:?} -> {:?} ({}): received sequence differs from the sent one at position {pos} ({} sent, {} received): {what}; sent there {:?}, received {:?}",
                        key.0, key.1, if *remote { "tcp" } else { "local" }, s.len(), r.len(), s.get(pos), r.get(pos)
                    ));
                }
            }
        }
    }
    for (key, (r, _)) in &recv {
        if !sent.contains_key(key) && !r.is_empty() {
            errs.push(format!(
                "endpoint {:?} received {} elements marked as coming from {:?}, which never sent on that link (misdelivery)",
                key.1, r.len(), key.0
            ));
        }
    }
    (errs, st)
}

fn c02_jobgen(args: &Args, report: &mut Report, rng: &mut Rng) {
    let cases = if args.thorough { 110 } else { 9 };
    let cfg = GenCfg { focus: Focus::Links, max_input: if args.thorough { 6000 } else { 1500 }, loops: true, max_steps: 8 };
    for case in 0..cases {
        let mut crng = rng.fork(case);
        let g = gen_program(&mut crng, &cfg);
        let layouts = crate::engines::jobgen::layouts_for(&mut crng, 3, false);
        for layout in layouts {
            // bias towards many batches per link
            let mut batch = match crng.below(5) {
                0 => BatchSpec::Single,
                1 => BatchSpec::Fixed(1),
                2 => BatchSpec::Fixed(crng.usize(2, 7)),
                3 => BatchSpec::Adaptive(crng.usize(1, 30), 1),
                _ => random_batch(&mut crng),
            };
            if crate::jobgen::gen::has_iterate(&g.program) && matches!(batch, BatchSpec::Single | BatchSpec::Fixed(1..=7)) {
                batch = BatchSpec::Fixed(64);
            }
            let policy = crate::engines::jobgen::random_policy(&mut crng);
            let pname = policy.name.clone();
            let out = crate::engines::jobgen::run_program(&g, batch, &layout, policy, true);
            let h = mix(hash_str(&format!("{:?}", g.program.stmts)), hash_str(&format!("{}{batch:?}{pname}", layout.name())));
            let detail = |err: Option<String>| json!({"engine":"linkmon.jobgen","case":case,"shard":args.shard,"seed":args.seed,"layout":layout.name(),
                "batch":format!("{batch:?}"),"policy":pname,"program":crate::engines::jobgen::program_json(&g),"error":err});
            if !out.panics.is_empty() {
                report.case(Verdict::Inconclusive, None, || detail(Some(format!("job panicked: {:?}", out.panics))));
                continue;
            }
            let (errs, st) = check_links(&out.log);
            report.count("jobs", 1);
            report.count("links", st.links);
            report.count("tcp_links", st.tcp_links);
            report.count("elements_compared", st.elements);
            report.count("control_elements_compared", st.control_elements);
            report.count("batches", st.batches);
            report.max("batches_per_link", st.max_batches_per_link);
            report.seen("layouts", layout.name());
            report.seen("batch_modes", format!("{batch:?}").split('(').next().unwrap().to_string());
            if errs.is_empty() {
                report.case(Verdict::Held, (st.elements > 20).then_some(h), || detail(None));
            } else {
                report.case(Verdict::Violated, Some(h), || detail(Some(errs.iter().take(3).cloned().collect::<Vec<_>>().join(" || "))));
            }
        }
    }
}

/// Payload sizes from 0 B to 1 MB, many replicas multiplexed on one TCP connection.
fn c02_payloads(args: &Args, report: &mut Report, rng: &mut Rng) {
    let cases = if args.thorough { 14 } else { 2 };
    let layouts = [Layout::Remote(vec![6, 6]), Layout::Remote(vec![1, 8]), Layout::Remote(vec![3, 2, 3]), Layout::Local(6), Layout::Remote(vec![2, 2])];
    for case in 0..cases {
        let layout = rng.pick(&layouts).clone();
        let sizes: Vec<usize> = match rng.below(4) {
            0 => vec![0, 1, 2, 3, 10, 100],
            1 => vec![0, 1, 1000, 65_535, 65_536, 70_000],
            2 => vec![1_000_000, 0, 5, 300_000],
            _ => (0..40).map(|_| rng.usize(0, 5000)).collect(),
        };
        let n = if sizes.iter().any(|s| *s > 100_000) { 24 } else { 400 };
        let data: Vec<(u64, String)> = (0..n as u64)
            .map(|i| {
                let len = sizes[(i as usize) % sizes.len()];
                let c = (b'a' + (i % 26) as u8) as char;
                (i, std::iter::repeat(c).take(len).collect())
            })
            .collect();
        let batch = random_batch(rng);
        let d2 = Arc::new(data.clone());
        let policy = crate::engines::jobgen::random_policy(rng);
        let pname = policy.name.clone();
        let res = run_job(
            &layout,
            RunOpts { policy, log_links: true, ..Default::default() },
            move |ctx, _| {
                let d = d2.clone();
                ctx.stream_par_iter(move |i: u64, n: u64| {
                    let d = d.clone();
                    (0..d.len()).filter(move |j| (*j as u64) % n == i).map(move |j| d[j].clone())
                })
                .batch_mode(batch.to_engine())
                .shuffle()
                .map(|x| x)
                .group_by(|x: &(u64, String)| x.0 % 7)
                .drop_key()
                .shuffle()
                .collect_vec()
            },
            |o, _| o.get(),
        );
        let h = mix(hash_str(&format!("{sizes:?}")), hash_str(&format!("{}{batch:?}{pname}", layout.name())));
        let detail = |err: Option<String>| json!({"engine":"linkmon.payloads","case":case,"layout":layout.name(),"batch":format!("{batch:?}"),
            "policy":pname,"payload_sizes":sizes,"records":n,"error":err});
        if !res.all_ok() {
            report.case(Verdict::Inconclusive, None, || detail(Some(format!("job failed: {:?}", res.panic_messages()))));
            continue;
        }
        let (mut errs, st) = check_links(&res.log);
        let mut got: Vec<(u64, String)> = res.hosts.iter().flatten().filter_map(|h| match h { crate::run::HostOutcome::Ok(Some(v)) => Some(v.clone()), _ => None }).flatten().collect();
        got.sort();
        let mut want = data.clone();
        want.sort();
        if got != want {
            errs.push(format!("sink content differs: {} records, expected {}", got.len(), want.len()));
        }
        report.count("payload_jobs", 1);
        report.count("links", st.links);
        report.count("tcp_links", st.tcp_links);
        report.count("elements_compared", st.elements);
        report.max("payload_bytes", *sizes.iter().max().unwrap() as u64);
        if errs.is_empty() {
            report.case(Verdict::Held, Some(h), || detail(None));
        } else {
            report.case(Verdict::Violated, Some(h), || detail(Some(errs.iter().take(3).cloned().collect::<Vec<_>>().join(" || "))));
        }
    }
}

/// The batcher sits above the hooked send: the order in which a replica's last operator emitted
/// the elements (probe right before the end of the block) must be preserved on every link.
fn c02_batcher(args: &Args, report: &mut Report, rng: &mut Rng) {
    let cases = if args.thorough { 60 } else { 6 };
    for case in 0..cases {
        let layout = rng.pick(&[Layout::Local(2), Layout::Local(4), Layout::Remote(vec![2, 2]), Layout::Remote(vec![1, 3])]).clone();
        let n = rng.usize(20, 120) as u64;
        let delay_ms = rng.below(3) + 1;
        let batch = match rng.below(3) {
            0 => renoir::BatchMode::adaptive(1024, std::time::Duration::from_millis(delay_ms)),
            1 => renoir::BatchMode::adaptive(rng.usize(3, 30), std::time::Duration::from_millis(delay_ms)),
            _ => renoir::BatchMode::fixed(rng.usize(2, 9)),
        };
        let conn = rng.below(4);
        let burst = rng.below(4) + 2;
        let pause_us = delay_ms * 1000 * (rng.below(3) + 2);
        let data: Arc<Vec<Rec>> = Arc::new((0..n).map(|i| Rec { id: i + 1, k: (i % 7) as u32, v: i as i64 }).collect());
        let traces = TraceSink::new();
        let (d2, tr) = (data.clone(), traces.clone());
        let res = run_job(
            &layout,
            RunOpts { log_links: true, ..Default::default() },
            move |ctx, _| {
                let d = d2.clone();
                let s = ctx
                    .stream_par_iter(move |i: u64, n: u64| {
                        let d = d.clone();
                        (0..d.len()).filter(move |j| (*j as u64) % n == i).map(move |j| d[j].clone())
                    })
                    .batch_mode(batch)
                    // bursts of fast elements followed by a pause longer than the batch delay
                    .map(move |r: Rec| {
                        if r.id % burst == 0 {
                            std::thread::sleep(std::time::Duration::from_micros(pause_us));
                        }
                        r
                    })
                    .probed(RecProbe::new(1, "before-end", &tr));
                match conn {
                    0 => s.shuffle().for_each(|_| {}),
                    1 => s.group_by(|r: &Rec| r.k).for_each(|_| {}),
                    2 => s.replication(renoir::Replication::One).for_each(|_| {}),
                    _ => s.broadcast().for_each(|_| {}),
                }
            },
            |_, _| (),
        );
        let h = mix(n ^ (burst << 20) ^ (pause_us << 30), hash_str(&format!("{}{batch:?}{conn}", layout.name())));
        let detail = |err: Option<String>| json!({"engine":"linkmon.batcher","case":case,"layout":layout.name(),"batch":format!("{batch:?}"),"connection":conn,
            "elements":n,"burst":burst,"pause_us":pause_us,"error":err});
        if !res.all_ok() {
            report.case(Verdict::Inconclusive, None, || detail(Some(format!("job failed: {:?}", res.panic_messages()))));
            continue;
        }
        let (sent, _) = per_link(&res.log);
        let mut errs = Vec::new();
        let mut compared = 0u64;
        for t in traces.take() {
            let order: HashMap<u64, usize> = t
                .evs
                .iter()
                .filter(|e| e.kind == crate::probe::K_ITEM || e.kind == crate::probe::K_TS)
                .enumerate()
                .map(|(i, e)| (payload_hash(&Rec { id: e.d[0], k: e.d[1] as u32, v: e.d[2] as i64 }), i))
                .collect();
            for ((from, to), (_, elems, _)) in &sent {
                if *from != t.ctx.coord {
                    continue;
                }
                let mut last: Option<usize> = None;
                let mut seen_far = false;
                for d in elems {
                    match d.kind {
                        KIND_ITEM | KIND_TIMESTAMPED => {
                            compared += 1;
                            if seen_far {
                                errs.push(format!("link {from:?} -> {to:?}: a data element travels after the FlushAndRestart of its iteration"));
                            }
                            match order.get(&d.hash) {
                                None => errs.push(format!("link {from:?} -> {to:?}: an element that the producer never emitted")),
                                Some(pos) => {
                                    if last.map_or(false, |l| *pos < l) {
                                        errs.push(format!("link {from:?} -> {to:?}: the element emitted at position {pos} by the producer travels after the one emitted at position {}", last.unwrap()));
                                    }
                                    last = Some(*pos);
                                }
                            }
                        }
                        KIND_FLUSH_AND_RESTART => seen_far = true,
                        _ => {}
                    }
                }
                if elems.last().map(|d| d.kind) != Some(KIND_TERMINATE) {
                    errs.push(format!("link {from:?} -> {to:?}: Terminate is not the last element"));
                }
            }
        }
        report.count("batcher_jobs", 1);
        report.count("batcher_elements_order_checked", compared);
        if errs.is_empty() {
            report.case(Verdict::Held, (compared > 5).then_some(h), || detail(None));
        } else {
            report.case(Verdict::Violated, Some(h), || detail(Some(errs.iter().take(3).cloned().collect::<Vec<_>>().join(" || "))));
        }
    }
}

pub fn run_c02(args: &Args, report: &mut Report) {
    let mut rng = Rng::new(args.seed).fork(0xC02).fork(args.shard);
    if args.sub.is_none() || args.sub.as_deref() == Some("jobgen") {
        c02_jobgen(args, report, &mut rng);
    }
    if args.sub.is_none() || args.sub.as_deref() == Some("payloads") {
        c02_payloads(args, report, &mut rng);
    }
    if args.sub.is_none() || args.sub.as_deref() == Some("batcher") {
        c02_batcher(args, report, &mut rng);
    }
}

// ---------------------------------------------------------------------------------------------
// C03

#[derive(Clone, Copy, Debug, PartialEq, Eq)]
enum Conn {
    Shuffle,
    GroupBy,
    Broadcast,
    Forward(Rep),
}

#[derive(Clone, Debug)]
struct Chain {
    parallel_source: bool,
    conns: Vec<Conn>,
    n: usize,
    keys: u32,
}

fn gen_chain(rng: &mut Rng, max_n: usize) -> Chain {
    let parallel_source = rng.chance(2, 3);
    let mut rep = if parallel_source { Rep::Unlimited } else { Rep::One };
    let len = rng.usize(1, 5);
    let mut conns = Vec::new();
    let mut broadcasts = 0;
    for _ in 0..len {
        let c = match rng.below(7) {
            0 | 1 => Conn::Shuffle,
            2 | 3 => Conn::GroupBy,
            4 if broadcasts < 1 => {
                broadcasts += 1;
                Conn::Broadcast
            }
            _ => {
                let to = match rng.below(4) {
                    0 => Rep::One,
                    1 => Rep::Host,
                    2 => Rep::Limited(rng.below(4) + 1),
                    _ => Rep::Unlimited,
                };
                if rep.forward_ok(to) {
                    Conn::Forward(to)
                } else {
                    Conn::Shuffle
                }
            }
        };
        rep = match c {
            Conn::Forward(r) => r,
            _ => Rep::Unlimited,
        };
        conns.push(c);
    }
    Chain {
        parallel_source,
        conns,
        n: rng.usize(1, max_n),
        keys: *rng.pick(&[1u32, 2, 3, 7, 10, 100, 1000, 10_000]),
    }
}

fn apply_conn(s: BStream<Rec>, c: Conn) -> BStream<Rec> {
    match c {
        Conn::Shuffle => s.shuffle().boxed(),
        Conn::GroupBy => s.group_by(|r: &Rec| r.k).drop_key().boxed(),
        Conn::Broadcast => s.broadcast().boxed(),
        Conn::Forward(r) => s.replication(r.to_engine()).boxed(),
    }
}

fn chain_source(ctx: &StreamContext, data: Arc<Vec<Rec>>, parallel: bool, batch: BatchSpec, timestamps: bool) -> BStream<Rec> {
    let s = if parallel {
        ctx.stream_par_iter(move |i: u64, n: u64| {
            let d = data.clone();
            (0..d.len()).filter(move |j| (*j as u64) % n == i).map(move |j| d[j].clone())
        })
        .batch_mode(batch.to_engine())
        .boxed()
    } else {
        ctx.stream_iter((*data).clone().into_iter()).batch_mode(batch.to_engine()).boxed()
    };
    if !timestamps {
        // (the hash joins of the engine refuse timestamped streams)
        return s;
    }
    // timestamps = id, a watermark every 4th element (so watermarks travel on every link)
    s.add_timestamps(|r: &Rec| r.id as i64, |r: &Rec, ts| if r.id % 4 == 0 { Some(*ts) } else { None }).boxed()
}

struct EdgeRule {
    kind: Conn,
    /// how many copies of every element travel on this edge in total
    mult: u64,
    /// false when the producer pre-aggregates (two-phase group-by): only routing is checked
    conserve: bool,
}

#[allow(clippy::too_many_arguments)]
fn check_edge(
    from_block: u64,
    to_block: u64,
    rule: &EdgeRule,
    sent: &HashMap<(C3, Ep), (bool, Vec<ElemDigest>, u64)>,
    by_hash: &HashMap<u64, &Rec>,
    consumers: &BTreeSet<C3>,
    n_input: usize,
    key_home: &mut HashMap<(u64, u32), C3>,
    errs: &mut Vec<String>,
    stats: &mut BTreeMap<&'static str, u64>,
) {
    // links of this edge, grouped by producer
    let mut per_producer: BTreeMap<C3, Vec<(&Ep, &Vec<ElemDigest>)>> = BTreeMap::new();
    for ((from, to), (_, elems, _)) in sent {
        if from.0 == from_block && to.0 .0 == to_block && to.1 == from_block {
            per_producer.entry(*from).or_default().push((to, elems));
        }
    }
    let mut total: HashMap<u64, u64> = HashMap::new();
    for (p, links) in &per_producer {
        // control fan-out: identical control subsequence on every link of this producer
        let ctrl = |e: &Vec<ElemDigest>| -> Vec<(u8, i64)> {
            e.iter().filter(|d| matches!(d.kind, KIND_WATERMARK | KIND_FLUSH_AND_RESTART | KIND_TERMINATE)).map(|d| (d.kind, d.ts)).collect()
        };
        let c0 = ctrl(links[0].1);
        for (to, elems) in links.iter().skip(1) {
            let c = ctrl(elems);
            *stats.entry("control_sequences_compared").or_default() += 1;
            if c != c0 {
                errs.push(format!("edge b{from_block}->b{to_block}: producer {p:?} sent different control sequences to {:?} ({} markers) and to {:?} ({} markers)", links[0].0, c0.len(), to, c.len()));
            }
        }
        if !c0.iter().any(|(k, _)| *k == KIND_FLUSH_AND_RESTART) {
            errs.push(format!("edge b{from_block}->b{to_block}: producer {p:?} sent no FlushAndRestart"));
        }
        // every connected consumer replica gets the markers: the links of a producer must
        // cover the consumers its connection kind promises
        let targets: BTreeSet<C3> = links.iter().map(|(to, _)| to.0).collect();
        match rule.kind {
            Conn::Forward(_) => {
                if targets.len() != 1 {
                    errs.push(format!("forward edge b{from_block}->b{to_block}: producer {p:?} is linked to {} consumers", targets.len()));
                }
                let same = consumers.iter().find(|c| c.1 == p.1 && c.2 == p.2);
                if let Some(s) = same {
                    if !targets.contains(s) {
                        errs.push(format!("forward edge b{from_block}->b{to_block}: producer {p:?} does not send to its same-index consumer {s:?} but to {targets:?}"));
                    }
                }
            }
            _ => {
                if targets != *consumers {
                    errs.push(format!("edge b{from_block}->b{to_block} ({:?}): producer {p:?} is linked to {} of {} consumer replicas", rule.kind, targets.len(), consumers.len()));
                }
            }
        }
        // data elements
        let mut seen: HashMap<u64, u64> = HashMap::new();
        for (to, elems) in links {
            for d in elems.iter().filter(|d| d.kind == KIND_ITEM || d.kind == KIND_TIMESTAMPED) {
                *seen.entry(d.hash).or_default() += 1;
                *total.entry(d.hash).or_default() += 1;
                *stats.entry("data_elements_routed").or_default() += 1;
                let Some(rec) = by_hash.get(&d.hash) else {
                    errs.push(format!("edge b{from_block}->b{to_block}: an element that is not part of the input travels on the link to {to:?}"));
                    continue;
                };
                if rule.kind == Conn::GroupBy {
                    *stats.entry("keys_checked").or_default() += 1;
                    let home = key_home.entry((to_block, rec.k)).or_insert(to.0);
                    if *home != to.0 {
                        errs.push(format!("group-by edge into b{to_block}: key {} is sent to replica {:?} and to replica {:?}", rec.k, home, to.0));
                    }
                }
            }
        }
        let per_elem = if rule.kind == Conn::Broadcast { consumers.len() as u64 } else { 1 };
        for (h, c) in seen.iter().filter(|_| rule.conserve) {
            // a producer holds each element at most once per upstream copy; with `mult` copies
            // in total a single producer may hold several of them only after a broadcast
            if *c % per_elem != 0 || (rule.mult == 1 && *c != per_elem) {
                errs.push(format!("edge b{from_block}->b{to_block} ({:?}): producer {p:?} sent element {:?} {c} times (expected {per_elem} per copy)", rule.kind, by_hash.get(h).map(|r| r.id)));
            }
        }
    }
    if !rule.conserve {
        return;
    }
    // conservation on the edge: every input element travels `mult` (x consumers for broadcast) times
    let factor = rule.mult * if rule.kind == Conn::Broadcast { consumers.len() as u64 } else { 1 };
    let mut bad = 0;
    for (h, _) in by_hash.iter() {
        let c = total.get(h).copied().unwrap_or(0);
        if c != factor {
            bad += 1;
            if bad <= 2 {
                errs.push(format!("edge b{from_block}->b{to_block} ({:?}): element id {} crosses the edge {c} times, expected {factor}", rule.kind, by_hash[h].id));
            }
        }
    }
    let _ = n_input;
}

fn c03_case(args: &Args, report: &mut Report, rng: &mut Rng, case: u64) {
    let max_n = if args.thorough { 3000 } else { 600 };
    let a = gen_chain(rng, max_n);
    let join = rng.chance(1, 3);
    // keyed join of a stream partitioned by group_by with one partitioned by the two-phase
    // group_by_reduce: equal keys of both inputs must live on the same replica
    let mixed = join && rng.chance(1, 3);
    // join with the right input broadcast to every replica of the join block
    let bcast = join && !mixed && rng.chance(1, 2);
    let split = !join && rng.chance(1, 4);
    // one case in four: the whole chain is the body of a replay loop (markers and watermarks
    // must keep reaching every connected replica in every round)
    let in_loop = !join && !split && rng.chance(1, 4);
    let rounds = rng.usize(2, 3) as u64;
    let mut a = a;
    if in_loop {
        for c in a.conns.iter_mut() {
            if !matches!(c, Conn::Shuffle | Conn::GroupBy) {
                *c = Conn::Shuffle;
            }
        }
        a.n = a.n.min(300);
    }
    let b = gen_chain(rng, max_n);
    let layout = match rng.below(10) {
        0 => Layout::Local(1),
        1 => Layout::Local(2),
        2 => Layout::Local(3),
        3 => Layout::Local(5),
        4 => Layout::Local(8),
        5 => Layout::Remote(vec![2, 1]),
        6 => Layout::Remote(vec![1, 3, 2]),
        7 => Layout::Remote(vec![3, 3]),
        8 => Layout::Remote(vec![1, 1, 4]),
        _ => Layout::Remote(vec![2, 2, 2]),
    };
    let batch = random_batch(rng);
    let mk = |c: &Chain, base: u64, rng: &mut Rng| -> Vec<Rec> {
        (0..c.n as u64).map(|i| Rec { id: base + i + 1, k: rng.below(c.keys as u64) as u32, v: rng.range(-50, 50) }).collect()
    };
    let da = Arc::new(mk(&a, 0, rng));
    let db = Arc::new(mk(&b, 1_000_000, rng));
    let traces = TraceSink::new();
    let policy = crate::engines::jobgen::random_policy(rng);
    let pname = policy.name.clone();
    let (a2, b2, da2, db2, tr2) = (a.clone(), b.clone(), da.clone(), db.clone(), traces.clone());
    // var ids: chain a: 100 + i (0 = source), chain b: 200 + i, join: 300, split branches 400+
    let res = run_job(
        &layout,
        RunOpts { policy, log_links: true, ..Default::default() },
        move |ctx, _| {
            let build = |c: &Chain, d: Arc<Vec<Rec>>, base: u32| -> BStream<Rec> {
                let mut s = chain_source(ctx, d, c.parallel_source, batch, !join).probed(RecProbe::new(base, "src", &tr2));
                for (i, conn) in c.conns.iter().enumerate() {
                    s = apply_conn(s, *conn).probed(RecProbe::new(base + 1 + i as u32, "conn", &tr2));
                }
                s
            };
            if in_loop {
                let (c, tr3) = (a2.clone(), tr2.clone());
                chain_source(ctx, da2.clone(), c.parallel_source, batch, true)
                    .shuffle()
                    .replay(
                        rounds as usize,
                        0i64,
                        move |s, _| {
                            let mut s = s.probed(RecProbe::new(100, "loop-entry", &tr3));
                            for (i, conn) in c.conns.iter().enumerate() {
                                s = apply_conn(s, *conn).probed(RecProbe::new(101 + i as u32, "conn", &tr3));
                            }
                            s.drop_timestamps()
                        },
                        |d: &mut i64, r: Rec| *d += r.v,
                        |a: &mut i64, d: i64| *a += d,
                        |_| true,
                    )
                    .for_each(|_| {});
                return;
            }
            let sa = build(&a2, da2.clone(), 100);
            if mixed {
                let sb = build(&b2, db2.clone(), 200);
                let ka = sa.group_by(|r: &Rec| r.k).unkey().probed(RecProbe::<(u32, Rec)>::new(310, "mixed-left", &tr2)).to_keyed();
                let kb = sb.group_by_reduce(|r: &Rec| r.k, |_a, _b| {}).unkey().probed(RecProbe::<(u32, Rec)>::new(311, "mixed-right", &tr2)).to_keyed();
                ka.join(kb).unkey().for_each(|_| {});
            } else if bcast {
                let sb = build(&b2, db2.clone(), 200);
                sa.join_with(sb, |r: &Rec| r.k, |r: &Rec| r.k)
                    .ship_broadcast_right()
                    .local_hash()
                    .inner()
                    .map(|(_, (l, _))| l)
                    .probed(RecProbe::new(320, "broadcast-join", &tr2))
                    .for_each(|_| {});
            } else if join {
                let sb = build(&b2, db2.clone(), 200);
                sa.join(sb, |r: &Rec| r.k, |r: &Rec| r.k).unkey().map(|(_, (l, _))| l).probed(RecProbe::new(300, "join", &tr2)).for_each(|_| {});
            } else if split {
                let mut parts = sa.split(3).into_iter();
                parts.next().unwrap().shuffle().probed(RecProbe::new(400, "split-shuffle", &tr2)).for_each(|_| {});
                parts.next().unwrap().group_by(|r: &Rec| r.k).drop_key().probed(RecProbe::new(401, "split-groupby", &tr2)).for_each(|_| {});
                parts.next().unwrap().for_each(|_| {});
            } else {
                sa.for_each(|_| {});
            }
        },
        |_, _| (),
    );
    let desc = json!({"engine":"linkmon.routing","case":case,"shard":args.shard,"seed":args.seed,"layout":layout.name(),"batch":format!("{batch:?}"),"policy":pname,
        "chain_a":format!("{a:?}"),"chain_b": if join {json!(format!("{b:?}"))} else {json!(null)},"join":join,"mixed_partitioning_join":mixed,"broadcast_join":bcast,"split":split,"inside_replay_loop": if in_loop { json!(rounds) } else { json!(null) }});
    let h = mix(hash_str(&format!("{a:?}{b:?}{join}{split}")), hash_str(&format!("{}{batch:?}", layout.name())));
    if !res.all_ok() {
        let mut d = desc.clone();
        d["error"] = json!(format!("job failed: {:?}", res.panic_messages()));
        report.case(Verdict::Inconclusive, None, || d);
        return;
    }
    // block of every probed variable, and replicas of every block
    let mut block_of: HashMap<u32, u64> = HashMap::new();
    let mut replicas: HashMap<u64, BTreeSet<C3>> = HashMap::new();
    let all_traces = traces.take();
    for t in &all_traces {
        block_of.insert(t.probe, t.ctx.coord.0);
        replicas.entry(t.ctx.coord.0).or_default().insert(t.ctx.coord);
    }
    let (all_blocks, all_replicas) = (block_of.clone(), replicas.clone());
    let (sent, _recv) = per_link(&res.log);
    let mut errs = Vec::new();
    let mut stats: BTreeMap<&'static str, u64> = BTreeMap::new();
    let mut key_home: HashMap<(u64, u32), C3> = HashMap::new();
    let mut edges_checked = 0;
    let mut check_chain = |c: &Chain, d: &Arc<Vec<Rec>>, base: u32, errs: &mut Vec<String>, key_home: &mut HashMap<(u64, u32), C3>| -> (u64, u64) {
        let by_hash: HashMap<u64, &Rec> = d.iter().map(|r| (payload_hash(r), r)).collect();
        let mut mult = if in_loop { rounds } else { 1u64 };
        let mut last_block = block_of.get(&base).copied().unwrap_or(u64::MAX);
        for (i, conn) in c.conns.iter().enumerate() {
            let Some(&fb) = block_of.get(&(base + i as u32)) else { break };
            let Some(&tb) = block_of.get(&(base + 1 + i as u32)) else { break };
            let cons = replicas.get(&tb).cloned().unwrap_or_default();
            if fb == tb {
                continue; // replication(Unlimited) on an unlimited block creates a new block anyway; defensive
            }
            check_edge(fb, tb, &EdgeRule { kind: *conn, mult, conserve: true }, &sent, &by_hash, &cons, d.len(), key_home, errs, &mut stats);
            // the watermarks a producer replica emitted (probe at the end of its block) must
            // travel, in the same order, on every one of its links of this edge
            for t in all_traces.iter().filter(|t| t.probe == base + i as u32) {
                let emitted: Vec<i64> = t.evs.iter().filter(|e| e.kind == crate::probe::K_WM).map(|e| e.ts).collect();
                for ((from, to), (_, elems, _)) in sent.iter().filter(|((f, to), _)| *f == t.ctx.coord && to.0 .0 == tb && to.1 == fb) {
                    let on_link: Vec<i64> = elems.iter().filter(|d| d.kind == KIND_WATERMARK).map(|d| d.ts).collect();
                    *stats.entry("watermark_sequences_compared").or_default() += 1;
                    if on_link != emitted {
                        errs.push(format!("edge b{fb}->b{tb}: replica {from:?} emitted {} watermarks but {} travel on its link to {to:?} (first difference at {:?})", emitted.len(), on_link.len(), emitted.iter().zip(on_link.iter()).position(|(a, b)| a != b)));
                    }
                }
            }
            report.seen("edge_cells", format!("{:?} {}->{}", match conn { Conn::Forward(_) => "Forward".to_string(), c => format!("{c:?}") }, replicas.get(&fb).map(|r| r.len()).unwrap_or(0), cons.len()));
            edges_checked += 1;
            if *conn == Conn::Broadcast {
                mult *= cons.len() as u64;
            }
            last_block = tb;
        }
        (last_block, mult)
    };
    let (last_a, mult_a) = check_chain(&a, &da, 100, &mut errs, &mut key_home);
    if mixed {
        let (last_b, mult_b) = check_chain(&b, &db, 200, &mut errs, &mut key_home);
        if let (Some(&xb), Some(&yb)) = (block_of.get(&310), block_of.get(&311)) {
            let ha: HashMap<u64, &Rec> = da.iter().map(|r| (payload_hash(r), r)).collect();
            // the two-phase form ships (key, Some(one of the producer's elements of that key))
            let hb: HashMap<u64, &Rec> = db.iter().map(|r| (payload_hash(&(r.k, Some(r.clone()))), r)).collect();
            let cx = replicas.get(&xb).cloned().unwrap_or_default();
            let cy = replicas.get(&yb).cloned().unwrap_or_default();
            check_edge(last_a, xb, &EdgeRule { kind: Conn::GroupBy, mult: mult_a, conserve: true }, &sent, &ha, &cx, da.len(), &mut key_home, &mut errs, &mut stats);
            check_edge(last_b, yb, &EdgeRule { kind: Conn::GroupBy, mult: mult_b, conserve: false }, &sent, &hb, &cy, db.len(), &mut key_home, &mut errs, &mut stats);
            edges_checked += 2;
            let mut compared = 0;
            for ((blk, k), home) in key_home.iter().filter(|((b, _), _)| *b == xb) {
                let _ = blk;
                if let Some(other) = key_home.get(&(yb, *k)) {
                    compared += 1;
                    if (home.1, home.2) != (other.1, other.2) {
                        errs.push(format!("key {k}: the group_by input of the keyed join puts it on replica (host {}, replica {}), the group_by_reduce input on (host {}, replica {}): equal keys of the two inputs do not meet", home.1, home.2, other.1, other.2));
                    }
                }
            }
            *stats.entry("mixed_partitioning_keys_compared").or_default() += compared;
        }
    } else if bcast {
        let (last_b, mult_b) = check_chain(&b, &db, 200, &mut errs, &mut key_home);
        if let Some(&jb) = all_blocks.get(&320) {
            let cons = all_replicas.get(&jb).cloned().unwrap_or_default();
            let ha: HashMap<u64, &Rec> = da.iter().map(|r| (payload_hash(r), r)).collect();
            let hb: HashMap<u64, &Rec> = db.iter().map(|r| (payload_hash(r), r)).collect();
            let rep_a = match a.conns.last() { Some(Conn::Forward(r)) => *r, _ => Rep::Unlimited };
            // the left input is forwarded, the right one must reach every replica of the join block
            check_edge(last_a, jb, &EdgeRule { kind: Conn::Forward(rep_a), mult: mult_a, conserve: true }, &sent, &ha, &cons, da.len(), &mut key_home, &mut errs, &mut stats);
            check_edge(last_b, jb, &EdgeRule { kind: Conn::Broadcast, mult: mult_b, conserve: true }, &sent, &hb, &cons, db.len(), &mut key_home, &mut errs, &mut stats);
            edges_checked += 2;
            *stats.entry("broadcast_join_checks").or_default() += 1;
        }
    } else if join {
        let (last_b, mult_b) = check_chain(&b, &db, 200, &mut errs, &mut key_home);
        if let Some(&jb) = block_of.get(&300) {
            let cons = replicas.get(&jb).cloned().unwrap_or_default();
            let ha: HashMap<u64, &Rec> = da.iter().map(|r| (payload_hash(r), r)).collect();
            let hb: HashMap<u64, &Rec> = db.iter().map(|r| (payload_hash(r), r)).collect();
            // both sides are group-by edges into the same block: the key -> replica map is shared
            check_edge(last_a, jb, &EdgeRule { kind: Conn::GroupBy, mult: mult_a, conserve: true }, &sent, &ha, &cons, da.len(), &mut key_home, &mut errs, &mut stats);
            check_edge(last_b, jb, &EdgeRule { kind: Conn::GroupBy, mult: mult_b, conserve: true }, &sent, &hb, &cons, db.len(), &mut key_home, &mut errs, &mut stats);
            edges_checked += 2;
            *stats.entry("join_colocation_checks").or_default() += 1;
        }
    } else if split {
        let ha: HashMap<u64, &Rec> = da.iter().map(|r| (payload_hash(r), r)).collect();
        // the split block forwards to three blocks; two of them continue with a known connection
        for (probe, kind) in [(400u32, Conn::Shuffle), (401u32, Conn::GroupBy)] {
            if let Some(&tb) = block_of.get(&probe) {
                // the block feeding `tb` is the split branch block: find it in the link log
                let feeders: BTreeSet<u64> = sent.keys().filter(|(_, to)| to.0 .0 == tb).map(|(f, _)| f.0).collect();
                for fb in feeders {
                    let cons = replicas.get(&tb).cloned().unwrap_or_default();
                    check_edge(fb, tb, &EdgeRule { kind, mult: mult_a, conserve: true }, &sent, &ha, &cons, da.len(), &mut key_home, &mut errs, &mut stats);
                    edges_checked += 1;
                }
            }
        }
        // and the fan-out itself: every branch block receives every element once per copy
        let branch_targets: BTreeSet<u64> = sent.keys().filter(|(f, _)| f.0 == last_a).map(|(_, to)| to.0 .0).collect();
        *stats.entry("split_downstream_blocks").or_default() += branch_targets.len() as u64;
        for tb in branch_targets {
            let cons: BTreeSet<C3> = sent.keys().filter(|(f, to)| f.0 == last_a && to.0 .0 == tb).map(|(_, to)| to.0).collect();
            let rep_a = match a.conns.last() { Some(Conn::Forward(r)) => *r, _ => Rep::Unlimited };
            check_edge(last_a, tb, &EdgeRule { kind: Conn::Forward(rep_a), mult: mult_a, conserve: true }, &sent, &ha, &cons, da.len(), &mut key_home, &mut errs, &mut stats);
            edges_checked += 1;
        }
    }
    report.count("routing_jobs", 1);
    report.count("edges_checked", edges_checked);
    for (k, v) in stats {
        report.count(k, v);
    }
    if errs.is_empty() {
        report.case(Verdict::Held, (edges_checked > 0).then_some(h), || desc.clone());
    } else {
        let mut d = desc.clone();
        d["error"] = json!(errs.iter().take(4).cloned().collect::<Vec<_>>().join(" || "));
        report.case(Verdict::Violated, Some(h), || d);
    }
}

pub fn run_c03(args: &Args, report: &mut Report) {
    let rng = Rng::new(args.seed).fork(0xC03).fork(args.shard);
    let cases = if args.thorough { 400 } else { 50 };
    for case in 0..cases {
        let mut crng = rng.fork(case);
        c03_case(args, report, &mut crng, case);
    }
    let _ = Mutex::new(());
}
