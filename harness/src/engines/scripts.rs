//! Scripted timestamp / watermark workloads.
//!
//! A custom `Source` replays, on K replicas, a global script of `Timestamped`, `Watermark` and
//! end-of-iteration steps in which every replica's own sub-sequence respects the watermark
//! contract. In lock-step mode a step is released only after the previous step's batch has been
//! handed to the channel, which enforces an exact arrival order at the first downstream `Start`
//! in local configurations, without any hook.
//!
//! Serves C06 (watermark automaton at every probe), C17 (reference frontier over the *observed*
//! arrivals vs. what Start emitted), C13 (event-time windows end-to-end) and reorder() of C16.

use std::collections::{BTreeMap, BTreeSet, HashMap};
use std::fmt::Display;
use std::sync::atomic::{AtomicUsize, Ordering};
use std::sync::Arc;
use std::time::{Duration, Instant};

use renoir::operator::source::Source;
use renoir::operator::window::{CountWindow, EventTimeWindow};
use renoir::operator::{Operator, StreamElement};
use renoir::prelude::*;
use renoir::structure::{BlockStructure, OperatorKind, OperatorStructure};
use renoir::verif::{KIND_FLUSH_AND_RESTART, KIND_ITEM, KIND_TERMINATE, KIND_TIMESTAMPED, KIND_WATERMARK};
use renoir::{ExecutionMetadata, Replication};
use serde::Serialize;
use serde_json::json;

use crate::jobgen::check::{check_grammar, Class};
use crate::jobgen::types::Rec;
use crate::obs::{LinkEv, C3};
use crate::probe::{BStream, BoxExt, Ev, RecProbe, Trace, TraceSink, K_FAR, K_ITEM, K_TERMINATE, K_TS, K_WM};
#[allow(unused_imports)]
use crate::probe::K_FLUSH_BATCH;
use crate::report::{Report, Verdict};
use crate::rng::{hash_str, mix, Rng};
use crate::run::{run_job, Layout, RunOpts};
use crate::Args;

#[derive(Clone, Copy, Debug, PartialEq, Eq, Serialize)]
pub enum SEl {
    T { id: u64, key: u32, ts: i64 },
    W(i64),
    End,
}

#[derive(Clone, Debug, Serialize)]
pub struct Script {
    pub replicas: usize,
    /// (replica, element) in global order
    pub steps: Vec<(usize, SEl)>,
}

#[derive(Clone)]
pub struct ScriptSource {
    script: Arc<Script>,
    lockstep: Option<Arc<AtomicUsize>>,
    mine: Vec<(usize, SEl)>,
    pos: usize,
    phase: u8,
    terminated: bool,
    pause_us: u64,
}

impl ScriptSource {
    pub fn new(script: Arc<Script>, lockstep: Option<Arc<AtomicUsize>>, pause_us: u64) -> Self {
        ScriptSource { script, lockstep, mine: vec![], pos: 0, phase: 0, terminated: false, pause_us }
    }
}

impl Display for ScriptSource {
    fn fmt(&self, f: &mut std::fmt::Formatter<'_>) -> std::fmt::Result {
        write!(f, "ScriptSource")
    }
}

impl Source for ScriptSource {
    fn replication(&self) -> Replication {
        Replication::Limited(self.script.replicas as u64)
    }
}

impl Operator for ScriptSource {
    type Out = Rec;

    fn setup(&mut self, metadata: &mut ExecutionMetadata) {
        let me = metadata.global_id as usize;
        assert_eq!(metadata.replicas.len(), self.script.replicas, "layout has fewer cores than the script has replicas");
        self.mine = self
            .script
            .steps
            .iter()
            .enumerate()
            .filter(|(_, (r, _))| *r == me)
            .map(|(i, (_, e))| (i, *e))
            .collect();
    }

    fn next(&mut self) -> StreamElement<Rec> {
        loop {
            if self.terminated {
                return StreamElement::Terminate;
            }
            match self.phase {
                0 => {
                    if self.pos == self.mine.len() {
                        self.terminated = true;
                        return StreamElement::Terminate;
                    }
                    let (idx, el) = self.mine[self.pos];
                    if let Some(turn) = &self.lockstep {
                        let t0 = Instant::now();
                        while turn.load(Ordering::SeqCst) != idx {
                            if t0.elapsed() > Duration::from_secs(60) {
                                panic!("lock-step source stuck waiting for step {idx}");
                            }
                            std::thread::sleep(Duration::from_micros(30));
                        }
                    } else if self.pause_us > 0 && mix(idx as u64, 7) % 4 == 0 {
                        std::thread::sleep(Duration::from_micros(self.pause_us));
                    }
                    self.phase = 1;
                    return match el {
                        SEl::T { id, key, ts } => StreamElement::Timestamped(Rec { id, k: key, v: ts }, ts),
                        SEl::W(w) => StreamElement::Watermark(w),
                        SEl::End => StreamElement::FlushAndRestart,
                    };
                }
                1 => {
                    self.phase = 2;
                    if self.lockstep.is_some() {
                        return StreamElement::FlushBatch;
                    }
                }
                _ => {
                    // the previous step's batch has been handed to the channel
                    if let Some(turn) = &self.lockstep {
                        turn.store(self.mine[self.pos].0 + 1, Ordering::SeqCst);
                    }
                    self.pos += 1;
                    self.phase = 0;
                }
            }
        }
    }

    fn structure(&self) -> BlockStructure {
        let mut operator = OperatorStructure::new::<Rec, _>("ScriptSource");
        operator.kind = OperatorKind::Source;
        BlockStructure::default().add_operator(operator)
    }
}

/// NOTE: a script has one iteration. A source that went on after its FlushAndRestart would let a
/// fast replica start the next iteration while a slow one is still in the previous one, which no
/// real job can do (iterations only arise from loops, whose state barrier synchronises all
/// replicas); several iterations are obtained by wrapping the operators in a real `replay`.
pub struct ScriptCfg {
    pub max_replicas: usize,
    pub max_steps_per_replica: usize,
    pub iterations: usize,
    pub keys: u32,
    pub ts_span: i64,
}

/// Random valid script: every replica's own sequence respects the contract (after W(w) only
/// timestamps > w and watermarks > w), with forced coincidences (watermark equal to an element
/// timestamp, +-1, silent replicas, replicas ending early).
pub fn gen_script(rng: &mut Rng, cfg: &ScriptCfg, next_id: &mut u64) -> Script {
    let replicas = rng.usize(1, cfg.max_replicas);
    let mut steps: Vec<(usize, SEl)> = Vec::new();
    for _it in 0..cfg.iterations {
        // per replica sequences
        let mut seqs: Vec<Vec<SEl>> = Vec::new();
        for _r in 0..replicas {
            let mut v = Vec::new();
            let silent = rng.chance(1, 8);
            let n = if silent { 0 } else { rng.usize(0, cfg.max_steps_per_replica) };
            let mut last_w: i64 = -1;
            let mut horizon: i64 = 0;
            for _ in 0..n {
                if rng.chance(1, 3) {
                    // watermark: above the previous one, around the horizon
                    let w = match rng.below(4) {
                        0 => last_w + 1,
                        1 => horizon.max(last_w + 1),
                        2 => (horizon - 1).max(last_w + 1),
                        _ => horizon.max(last_w + 1) + rng.range(0, 3),
                    };
                    v.push(SEl::W(w));
                    last_w = w;
                } else {
                    let ts = last_w + 1 + rng.range(0, cfg.ts_span);
                    *next_id += 1;
                    v.push(SEl::T { id: *next_id, key: rng.below(cfg.keys as u64) as u32, ts });
                    horizon = horizon.max(ts);
                }
            }
            v.push(SEl::End);
            seqs.push(v);
        }
        // interleave
        let mut pos = vec![0usize; replicas];
        loop {
            let live: Vec<usize> = (0..replicas).filter(|r| pos[*r] < seqs[*r].len()).collect();
            if live.is_empty() {
                break;
            }
            // sometimes let one replica run ahead (ends early), otherwise uniform
            let r = *rng.pick(&live);
            let burst = if rng.chance(1, 5) { rng.usize(1, 6) } else { 1 };
            for _ in 0..burst {
                if pos[r] < seqs[r].len() {
                    steps.push((r, seqs[r][pos[r]]));
                    pos[r] += 1;
                }
            }
        }
    }
    Script { replicas, steps }
}

// ---------------------------------------------------------------------------------------------
// reference frontier (C17), written from the statement

#[derive(Debug, Clone, Copy, PartialEq, Eq)]
pub enum Cause {
    WatermarkArrival,
    ReplicaEnd,
}

#[derive(Debug, Clone, Copy, PartialEq, Eq)]
pub enum Expected {
    Data(i64),
    Wm(i64, Cause),
    Far,
    Terminate,
}

/// Reference model of a block input fed by `producers`, run over the observed arrival order.
pub struct FrontierModel {
    latest: HashMap<C3, Option<i64>>,
    ended: HashMap<C3, bool>,
    emitted: Option<i64>,
    pub out: Vec<Expected>,
    terminates: usize,
}

impl FrontierModel {
    pub fn new(producers: &BTreeSet<C3>) -> Self {
        FrontierModel {
            latest: producers.iter().map(|p| (*p, None)).collect(),
            ended: producers.iter().map(|p| (*p, false)).collect(),
            emitted: None,
            out: Vec::new(),
            terminates: 0,
        }
    }

    fn frontier(&self) -> Option<i64> {
        let mut min: Option<i64> = None;
        for (p, w) in &self.latest {
            if self.ended[p] {
                continue;
            }
            match w {
                None => return None,
                Some(w) => min = Some(min.map_or(*w, |m: i64| m.min(*w))),
            }
        }
        min
    }

    fn after_change(&mut self, cause: Cause) {
        if self.ended.values().all(|e| *e) {
            return;
        }
        if let Some(f) = self.frontier() {
            if self.emitted.map_or(true, |e| f > e) {
                self.emitted = Some(f);
                self.out.push(Expected::Wm(f, cause));
            }
        }
    }

    pub fn arrive(&mut self, from: C3, kind: u8, ts: i64) {
        match kind {
            KIND_ITEM => self.out.push(Expected::Data(i64::MIN)),
            KIND_TIMESTAMPED => self.out.push(Expected::Data(ts)),
            KIND_WATERMARK => {
                let e = self.latest.get_mut(&from).expect("unknown producer");
                if e.map_or(true, |old| ts > old) {
                    *e = Some(ts);
                }
                self.after_change(Cause::WatermarkArrival);
            }
            KIND_FLUSH_AND_RESTART => {
                *self.ended.get_mut(&from).expect("unknown producer") = true;
                if self.ended.values().all(|e| *e) {
                    self.out.push(Expected::Far);
                    for v in self.latest.values_mut() {
                        *v = None;
                    }
                    for v in self.ended.values_mut() {
                        *v = false;
                    }
                    self.emitted = None;
                } else {
                    self.after_change(Cause::ReplicaEnd);
                }
            }
            KIND_TERMINATE => {
                self.terminates += 1;
                if self.terminates == self.latest.len() {
                    self.out.push(Expected::Terminate);
                }
            }
            _ => {}
        }
    }
}

/// Compare what the probe right after Start saw with the model's expectation.
/// Returns (violations, known F2 instances, frontier increases by cause).
pub fn compare_frontier(expected: &[Expected], trace: &Trace) -> (Vec<String>, u64, (u64, u64)) {
    let mut errs = Vec::new();
    let mut f2 = 0;
    let mut incr = (0u64, 0u64);
    let actual: Vec<&Ev> = trace.evs.iter().collect();
    let mut a = 0;
    for (i, e) in expected.iter().enumerate() {
        let got = actual.get(a);
        match e {
            Expected::Wm(w, cause) => {
                match cause {
                    Cause::WatermarkArrival => incr.0 += 1,
                    Cause::ReplicaEnd => incr.1 += 1,
                }
                if matches!(got, Some(g) if g.kind == K_WM && g.ts == *w) {
                    a += 1;
                } else if *cause == Cause::ReplicaEnd {
                    // finding F2: an increase of the frontier caused by the end of a replica is
                    // not forwarded (it is subsumed by the next emitted watermark)
                    f2 += 1;
                } else {
                    errs.push(format!(
                        "expected Watermark({w}) (the minimum over the active upstream replicas rose because a watermark arrived) at position {i}, but the block's operators observed {}",
                        got.map(|g| format!("{}(ts {})", crate::probe::kind_name(g.kind), g.ts)).unwrap_or("nothing".into())
                    ));
                    return (errs, f2, incr);
                }
            }
            Expected::Data(ts) => {
                let ok = matches!(got, Some(g) if (g.kind == K_TS && g.ts == *ts) || (g.kind == K_ITEM && *ts == i64::MIN));
                if ok {
                    a += 1;
                } else {
                    errs.push(format!(
                        "expected the data element with timestamp {ts} at position {i}, but the block's operators observed {}",
                        got.map(|g| format!("{}(ts {})", crate::probe::kind_name(g.kind), g.ts)).unwrap_or("nothing".into())
                    ));
                    return (errs, f2, incr);
                }
            }
            Expected::Far => {
                if matches!(got, Some(g) if g.kind == K_FAR) {
                    a += 1;
                } else {
                    errs.push(format!("expected FlushAndRestart at position {i}, observed {:?}", got.map(|g| (crate::probe::kind_name(g.kind), g.ts))));
                    return (errs, f2, incr);
                }
            }
            Expected::Terminate => {
                if matches!(got, Some(g) if g.kind == K_TERMINATE) {
                    a += 1;
                } else {
                    errs.push(format!("expected Terminate at position {i}, observed {:?}", got.map(|g| (crate::probe::kind_name(g.kind), g.ts))));
                    return (errs, f2, incr);
                }
            }
        }
    }
    if a != actual.len() {
        let g = actual[a];
        errs.push(format!("the block's operators observed an extra {}(ts {}) that the arrivals do not explain", crate::probe::kind_name(g.kind), g.ts));
    }
    (errs, f2, incr)
}

/// For every consumer replica of `block`: the arrivals in the order its thread received them.
/// The largest batch the mode allows on a link.
pub fn batch_cap(b: BatchMode) -> usize {
    match b {
        BatchMode::Single => 1,
        BatchMode::Fixed(n) => n.get(),
        BatchMode::Adaptive(n, _) => n.get(),
    }
}

pub fn arrivals_of(log: &crate::obs::JobLog, block: u64) -> BTreeMap<C3, Vec<(C3, u8, i64)>> {
    let mut m: BTreeMap<C3, Vec<(C3, u8, i64)>> = BTreeMap::new();
    for (_, evs) in &log.link_events {
        for ev in evs {
            if let LinkEv::Recv { at, from, elems } = ev {
                if at.0 .0 == block {
                    let v = m.entry(at.0).or_default();
                    for e in elems {
                        v.push((*from, e.kind, e.ts));
                    }
                }
            }
        }
    }
    m
}

fn script_layout(rng: &mut Rng, replicas: usize, local_only: bool) -> Layout {
    let need = replicas as u64;
    let mut opts = vec![Layout::Local(need), Layout::Local(need + 1), Layout::Local(need.max(3) + 2)];
    if !local_only {
        opts.push(Layout::Remote(vec![need, 1]));
        opts.push(Layout::Remote(vec![1, need, 2]));
        if need >= 2 {
            opts.push(Layout::Remote(vec![need - 1, 2]));
        }
        opts.push(Layout::Remote(vec![need, need]));
    }
    rng.pick(&opts).clone()
}

// ---------------------------------------------------------------------------------------------
// C17

pub fn run_c17(args: &Args, report: &mut Report) {
    let rng = Rng::new(args.seed).fork(0xC17).fork(args.shard);
    let cases = if args.thorough { 700 } else { 60 };
    let mut next_id = 0u64;
    for case in 0..cases {
        let mut crng = rng.fork(case);
        let cfg = ScriptCfg { max_replicas: 6, max_steps_per_replica: if crng.chance(1, 2) { 6 } else { 25 }, iterations: 1, keys: 3, ts_span: 6 };
        let script = Arc::new(gen_script(&mut crng, &cfg, &mut next_id));
        let lockstep = crng.chance(2, 3);
        let layout = script_layout(&mut crng, script.replicas, lockstep);
        let binary = crng.chance(1, 4);
        let conn = crng.below(3);
        let batch = match crng.below(4) {
            0 => BatchMode::single(),
            1 => BatchMode::fixed(crng.usize(1, 5)),
            2 => BatchMode::adaptive(crng.usize(1, 50), Duration::from_millis(1)),
            _ => BatchMode::default(),
        };
        let traces = TraceSink::new();
        let script2 = Arc::new(gen_script(&mut crng, &cfg, &mut next_id));
        let (s1, s2, tr) = (script.clone(), script2.clone(), traces.clone());
        let turn = lockstep.then(|| Arc::new(AtomicUsize::new(0)));
        let turn2 = (lockstep && binary).then(|| Arc::new(AtomicUsize::new(0)));
        let policy = if lockstep { crate::obs::Policy::none() } else { crate::engines::jobgen::random_policy(&mut crng) };
        let pname = policy.name.clone();
        let need = script.replicas.max(if binary { script2.replicas } else { 0 });
        let layout = if binary { script_layout(&mut crng, need, lockstep) } else { layout };
        // one case in five: the observed Start is inside a replay loop (its frontier must be reset
        // and work again in every round)
        let in_loop = !binary && conn != 2 && crng.chance(1, 5);
        let rounds = crng.usize(2, 4);
        let res = run_job(
            &layout,
            RunOpts { policy, log_links: true, ..Default::default() },
            move |ctx, _| {
                let a = ctx.stream(ScriptSource::new(s1.clone(), turn.clone(), 80)).batch_mode(batch).boxed();
                let connect = move |s: BStream<Rec>| -> BStream<Rec> {
                    match conn {
                        0 => s.shuffle().boxed(),
                        1 => s.group_by(|r: &Rec| r.k).drop_key().boxed(),
                        _ => s.replication(Replication::One).boxed(),
                    }
                };
                if binary {
                    let b = ctx.stream(ScriptSource::new(s2.clone(), turn2.clone(), 80)).batch_mode(batch).boxed();
                    // merge needs equal replication on both sides: go through a shuffle first
                    connect(a).map(|r| r).shuffle().merge(connect(b).shuffle()).probed(RecProbe::new(1, "after-start", &tr)).for_each(|_| {});
                } else if in_loop {
                    let tr2 = tr.clone();
                    a.shuffle()
                        .replay(
                            rounds,
                            0i64,
                            move |s, _| connect(s.boxed()).probed(RecProbe::new(1, "after-start", &tr2)).drop_timestamps(),
                            |d: &mut i64, r: Rec| *d += r.v,
                            |a: &mut i64, d: i64| *a += d,
                            |_| true,
                        )
                        .for_each(|_| {});
                } else {
                    connect(a).probed(RecProbe::new(1, "after-start", &tr)).for_each(|_| {});
                }
            },
            |_, _| (),
        );
        let h = mix(hash_str(&format!("{:?}", script.steps)), hash_str(&format!("{}{binary}{conn}{batch:?}", layout.name())));
        let detail = |err: Option<String>| json!({"engine":"scripts.frontier","case":case,"shard":args.shard,"seed":args.seed,"layout":layout.name(),
            "lockstep":lockstep,"binary_start":binary,"inside_replay_loop":in_loop,"connection":conn,"batch":format!("{batch:?}"),"policy":pname,
            "script": if script.steps.len() <= 40 { json!(script.steps.iter().map(|(r, e)| format!("r{r}:{e:?}")).collect::<Vec<_>>()) } else { json!(format!("{} steps on {} replicas", script.steps.len(), script.replicas)) },
            "error":err});
        if !res.all_ok() {
            report.case(Verdict::Inconclusive, None, || detail(Some(format!("job failed: {:?} {:?}", res.end, res.panic_messages()))));
            continue;
        }
        let all = traces.take();
        let Some(block) = all.first().map(|t| t.ctx.coord.0) else {
            report.case(Verdict::Inconclusive, None, || detail(Some("probe not reached".into())));
            continue;
        };
        let arrivals = arrivals_of(&res.log, block);
        let mut errs = Vec::new();
        let mut f2_total = 0;
        let mut incr = (0u64, 0u64);
        for t in &all {
            let arr = arrivals.get(&t.ctx.coord).cloned().unwrap_or_default();
            let producers: BTreeSet<C3> = {
                // every upstream replica sends at least its markers: the producers are the senders seen
                arr.iter().map(|(f, _, _)| *f).collect()
            };
            if producers.is_empty() {
                continue;
            }
            let mut model = FrontierModel::new(&producers);
            for (from, kind, ts) in &arr {
                model.arrive(*from, *kind, *ts);
            }
            let (e, f2, inc) = compare_frontier(&model.out, t);
            for x in e {
                errs.push(format!("replica {:?}: {x}", t.ctx.coord));
            }
            f2_total += f2;
            incr.0 += inc.0;
            incr.1 += inc.1;
        }
        // between End and Start a watermark waits at most for the rest of its batch: no batch
        // may hold more elements than the batch mode allows (a watermark riding in a batch that
        // is never cut is withheld from the consumer's frontier)
        let cap = batch_cap(batch);
        let mut batches = 0u64;
        for (_, evs) in &res.log.link_events {
            for ev in evs {
                if let LinkEv::Send { from, to, elems, .. } = ev {
                    let wms = elems.iter().filter(|e| e.kind == crate::probe::K_WM).count();
                    if wms == 0 {
                        // (the loop leader and feedback paths send their own small batches of
                        // control elements without a batcher; they carry no watermark)
                        continue;
                    }
                    batches += 1;
                    if elems.len() > cap {
                        errs.push(format!("replica {from:?} sent a batch of {} elements ({wms} watermarks) to {to:?} although the batch mode {batch:?} cuts batches at {cap}: its watermarks were withheld from the consumer", elems.len()));
                    }
                }
            }
        }
        report.count("watermark_carrying_batches_checked_against_batch_capacity", batches);
        report.count("frontier_jobs", 1);
        report.count("consumer_replicas_checked", all.len() as u64);
        report.count("frontier_increases_by_watermark_arrival", incr.0);
        report.count("frontier_increases_by_replica_end", incr.1);
        report.seen("layouts", layout.name());
        report.seen("modes", format!("lockstep={lockstep} binary={binary} conn={conn} in_loop={in_loop}"));
        if !errs.is_empty() {
            report.case(Verdict::Violated, Some(h), || detail(Some(errs.iter().take(3).cloned().collect::<Vec<_>>().join(" || "))));
        } else if f2_total > 0 {
            report.count("f2_instances", f2_total);
            let mut d = detail(None);
            d["finding"] = json!("F2");
            d["f2_instances"] = json!(f2_total);
            report.case(Verdict::Known, Some(h), || d);
        } else {
            report.case(Verdict::Held, (incr.0 + incr.1 > 0).then_some(h), || detail(None));
        }
    }
    // pinned probe of finding F2 (exact history): r0: W(10); r1: W(5), End; r0: T(11)
    if args.shard == 0 {
        pinned_f2(report);
    }
}

fn pinned_f2(report: &mut Report) {
    let script = Arc::new(Script {
        replicas: 2,
        steps: vec![(0, SEl::W(10)), (1, SEl::W(5)), (1, SEl::End), (0, SEl::T { id: 1, key: 0, ts: 11 }), (0, SEl::End)],
    });
    let traces = TraceSink::new();
    let (s1, tr) = (script.clone(), traces.clone());
    let turn = Arc::new(AtomicUsize::new(0));
    let res = run_job(
        &Layout::Local(2),
        RunOpts { log_links: true, ..Default::default() },
        move |ctx, _| {
            ctx.stream(ScriptSource::new(s1.clone(), Some(turn.clone()), 0)).replication(Replication::One).probed(RecProbe::new(1, "after-start", &tr)).for_each(|_| {});
        },
        |_, _| (),
    );
    let all = traces.take();
    let detail = |err: Option<String>| json!({"engine":"scripts.frontier.pinned_F2","finding":"F2","script":"r0:W(10) r1:W(5) r1:End r0:T(11) r0:End","error":err,
        "observed": all.first().map(|t| t.evs.iter().map(|e| format!("{}({})", crate::probe::kind_name(e.kind), e.ts)).collect::<Vec<_>>())});
    if !res.all_ok() || all.len() != 1 {
        report.case(Verdict::Inconclusive, None, || detail(Some("pinned probe did not run".into())));
        return;
    }
    let wms: Vec<i64> = all[0].evs.iter().filter(|e| e.kind == K_WM).map(|e| e.ts).collect();
    if wms == vec![5] {
        // W(10) never emitted although r1 ended: the listed finding
        report.case(Verdict::Known, None, || detail(None));
    } else if wms == vec![5, 10] {
        report.case(Verdict::Held, None, || detail(None));
    } else {
        report.case(Verdict::Violated, None, || detail(Some(format!("watermarks observed {wms:?}"))));
    }
}

// ---------------------------------------------------------------------------------------------
// C06 / C13 / C16(reorder): pipelines over scripts with probes everywhere

#[derive(Clone, Copy, Debug, PartialEq, Eq, Serialize)]
pub enum TOp {
    Map,
    FlatMapDup,
    Reorder,
    KeyedFoldSum,
    FoldSum,
    CountWin { n: usize, s: usize, exact: bool },
    EventWin { size: i64, slide: i64 },
    Shuffle,
    GroupBy,
    ToOne,
}

fn apply_top(s: BStream<Rec>, op: TOp) -> BStream<Rec> {
    match op {
        TOp::Map => s.map(|r| Rec { v: r.v + 1, ..r }).boxed(),
        TOp::FlatMapDup => s.flat_map(|r| vec![r.clone(), Rec { id: r.id + (1 << 40), ..r }]).boxed(),
        TOp::Reorder => s.reorder().boxed(),
        TOp::KeyedFoldSum => s.key_by(|r: &Rec| r.k).fold(0i64, |a, r: Rec| *a += r.v).map(|(k, v)| Rec { id: *k as u64, k: *k, v }).drop_key().boxed(),
        TOp::FoldSum => s.fold(0i64, |a, r: Rec| *a += r.v).map(|v| Rec { id: 0, k: 0, v }).boxed(),
        TOp::CountWin { n, s: slide, exact } => s
            .key_by(|r: &Rec| r.k)
            .window(CountWindow::new(n, slide, exact))
            .fold(Rec { id: 0, k: 0, v: 0 }, |a: &mut Rec, r: Rec| {
                a.id += 1;
                a.k = r.k;
                a.v += r.v
            })
            .drop_key()
            .boxed(),
        TOp::EventWin { size, slide } => s
            .key_by(|r: &Rec| r.k)
            .window(EventTimeWindow::sliding(size, slide))
            .fold(Rec { id: 0, k: 0, v: 0 }, |a: &mut Rec, r: Rec| {
                a.id += 1;
                a.k = r.k;
                a.v += r.v
            })
            .drop_key()
            .boxed(),
        TOp::Shuffle => s.shuffle().boxed(),
        TOp::GroupBy => s.group_by(|r: &Rec| r.k).drop_key().boxed(),
        TOp::ToOne => s.replication(Replication::One).boxed(),
    }
}

fn gen_tops(rng: &mut Rng) -> Vec<TOp> {
    let mut v = vec![*rng.pick(&[TOp::Shuffle, TOp::GroupBy, TOp::ToOne])];
    // keyed operators (folds, windows) use key_by without a shuffle of their own, so that the
    // probes before and after them sit on the same thread: they need a stream that is already
    // partitioned by key (after GroupBy / on a single replica, key-preserving operators since)
    let mut partitioned = v[0] != TOp::Shuffle;
    let n = rng.usize(1, 4);
    for _ in 0..n {
        let op = match rng.below(12) {
            0 => TOp::Map,
            1 => TOp::FlatMapDup,
            2 | 3 => TOp::Reorder,
            4 => TOp::KeyedFoldSum,
            5 => TOp::FoldSum,
            6 => {
                let n = rng.usize(1, 5);
                TOp::CountWin { n, s: rng.usize(1, n), exact: rng.chance(1, 2) }
            }
            7 | 8 | 9 => {
                let size = rng.range(1, 12);
                TOp::EventWin { size, slide: if rng.chance(1, 2) { size } else { rng.range(1, size) } }
            }
            10 => TOp::Shuffle,
            _ => TOp::GroupBy,
        };
        match op {
            TOp::KeyedFoldSum | TOp::CountWin { .. } | TOp::EventWin { .. } if !partitioned => {
                v.push(TOp::GroupBy);
                partitioned = true;
            }
            TOp::Shuffle => partitioned = false,
            TOp::GroupBy | TOp::ToOne => partitioned = true,
            _ => {}
        }
        v.push(op);
        // after a fold the stream has one element per iteration: stop there; the output of a
        // non-exact count window is subject to the open finding F5 (its consequences downstream,
        // e.g. the assertion of an event-time window, are not interesting): stop there too
        if matches!(v.last(), Some(TOp::FoldSum | TOp::CountWin { exact: false, .. })) {
            break;
        }
    }
    v
}

/// Which known finding (if any) explains a watermark-contract finding at the probe after `op`:
/// F5 = non-exact count window, offending element produced while the end of the iteration was
/// being processed (the in-probe had already seen FlushAndRestart).
fn classify_watermark_finding(op: TOp, in_trace: Option<&Trace>, out_trace: &Trace) -> Option<&'static str> {
    if let TOp::CountWin { exact: false, .. } = op {
        // find the offending output element: first Timestamped with ts <= last watermark
        let mut last_wm: Option<i64> = None;
        for e in &out_trace.evs {
            match e.kind {
                K_WM => last_wm = Some(e.ts),
                K_FAR => last_wm = None,
                K_TS => {
                    if let Some(w) = last_wm {
                        if e.ts <= w {
                            // was the input already at the end of the iteration?
                            let it = in_trace?;
                            let last_in = it.evs.iter().filter(|x| x.seq < e.seq).last()?;
                            return (last_in.kind == K_FAR || last_in.kind == K_TERMINATE).then_some("F5");
                        }
                    }
                }
                _ => {}
            }
        }
    }
    None
}

pub fn run_c06(args: &Args, report: &mut Report) {
    // the same scripted pipelines serve C06 (watermark contract) and C05 (protocol grammar on
    // timestamped streams, which the random programs of jobgen do not have)
    let wanted = if args.prop == "C05" { Class::Grammar } else { Class::Watermark };
    let rng = Rng::new(args.seed).fork(0xC06).fork(args.shard);
    let cases = if args.thorough { 700 } else { 60 };
    let mut next_id = 0u64;
    for case in 0..cases {
        if let Some(c) = std::env::var("VERIF_DEBUG_CASE").ok().and_then(|v| v.parse::<u64>().ok()) {
            if c != case {
                continue;
            }
        }
        if case < args.skip {
            continue;
        }
        let mut crng = rng.fork(case);
        let cfg = ScriptCfg { max_replicas: 5, max_steps_per_replica: 30, iterations: 1, keys: 3, ts_span: 8 };
        let script = Arc::new(gen_script(&mut crng, &cfg, &mut next_id));
        let ops = gen_tops(&mut crng);
        let lockstep = crng.chance(1, 2);
        let layout = script_layout(&mut crng, script.replicas, lockstep);
        let batch = match crng.below(4) {
            0 => BatchMode::single(),
            1 => BatchMode::fixed(crng.usize(1, 6)),
            2 => BatchMode::adaptive(crng.usize(1, 50), Duration::from_millis(1)),
            _ => BatchMode::default(),
        };
        let traces = TraceSink::new();
        let (s1, tr, ops2) = (script.clone(), traces.clone(), ops.clone());
        let turn = lockstep.then(|| Arc::new(AtomicUsize::new(0)));
        let policy = if lockstep { crate::obs::Policy::none() } else { crate::engines::jobgen::random_policy(&mut crng) };
        // one case in four has a second scripted source, merged or zipped with the first
        let binary = if !lockstep && crng.chance(1, 4) { 1 + crng.below(2) } else { 0 };
        let script_b = Arc::new(gen_script(&mut crng, &cfg, &mut next_id));
        let sb = script_b.clone();
        let layout = if binary != 0 { script_layout(&mut crng, script.replicas.max(script_b.replicas), false) } else { layout };
        // "across iterations": one case in four runs the operators as the body of a replay loop
        let in_loop = crng.chance(1, 4) && !ops.contains(&TOp::ToOne);
        let rounds = crng.usize(2, 3);
        {
            let w = json!({"engine":"scripts.watermarks","case":case,"shard":args.shard,"seed":args.seed,"layout":layout.name(),"lockstep":lockstep,
                "ops":format!("{ops:?}"),"inside_replay_loop":in_loop,"batch":format!("{batch:?}"),"script_steps":script.steps.len(),"replicas":script.replicas});
            crate::report::RESUME_FROM.store(case + 1, std::sync::atomic::Ordering::SeqCst);
            crate::run::on_no_return(move |end, census, r| {
                let mut d = w.clone();
                d["error"] = json!(format!("job did not return: {end:?}"));
                d["census"] = crate::run::census_json(census);
                r.case(Verdict::Inconclusive, None, || d);
            });
        }
        let res = run_job(
            &layout,
            RunOpts { policy, ..Default::default() },
            move |ctx, _| {
                let s = ctx.stream(ScriptSource::new(s1.clone(), turn.clone(), 60)).batch_mode(batch).probed(RecProbe::new(0, "source", &tr));
                // two-input variants: a second scripted source is merged / zipped in (through
                // shuffles, so that both inputs have the same replication)
                let s = match binary {
                    1 => {
                        let b = ctx.stream(ScriptSource::new(sb.clone(), None, 60)).batch_mode(batch).boxed();
                        s.shuffle().merge(b.shuffle()).probed(RecProbe::new(90, "Merge", &tr))
                    }
                    2 => {
                        let b = ctx.stream(ScriptSource::new(sb.clone(), None, 60)).batch_mode(batch).boxed();
                        s.shuffle().zip(b.shuffle()).map(|(a, _)| a).probed(RecProbe::new(90, "Zip", &tr))
                    }
                    _ => s,
                };
                let tr2 = tr.clone();
                let ops3 = ops2.clone();
                let chain = move |mut s: BStream<Rec>| -> BStream<Rec> {
                    for (i, op) in ops3.iter().enumerate() {
                        s = apply_top(s, *op).probed(RecProbe::new(i as u32 + 1, &format!("{op:?}"), &tr2));
                    }
                    s
                };
                if in_loop {
                    s.shuffle()
                        .replay(
                            rounds,
                            0i64,
                            // (the tail of a loop body does not accept timestamped elements)
                            move |s, _| chain(s.boxed()).drop_timestamps(),
                            |d: &mut i64, r: Rec| *d += r.v,
                            |a: &mut i64, d: i64| *a += d,
                            |_| true,
                        )
                        .for_each(|_| {});
                } else {
                    chain(s).for_each(|_| {});
                }
            },
            |_, _| (),
        );
        let h = mix(hash_str(&format!("{:?}", script.steps)), hash_str(&format!("{ops:?}{}{batch:?}", layout.name())));
        let second_name = ["none", "merge", "zip"][binary as usize];
        let detail = |err: Option<String>| json!({"engine":"scripts.watermarks","case":case,"shard":args.shard,"seed":args.seed,"layout":layout.name(),
            "lockstep":lockstep,"ops":format!("{ops:?}"),"inside_replay_loop":in_loop,"second_source": second_name,"batch":format!("{batch:?}"),
            "script": if script.steps.len() <= 40 { json!(script.steps.iter().map(|(r, e)| format!("r{r}:{e:?}")).collect::<Vec<_>>()) } else { json!(format!("{} steps on {} replicas", script.steps.len(), script.replicas)) },
            "error":err});
        if !res.all_ok() {
            report.case(Verdict::Inconclusive, None, || detail(Some(format!("job failed: {:?} {:?}", res.end, res.panic_messages()))));
            continue;
        }
        let all = traces.take();
        if std::env::var("VERIF_DEBUG_CASE").ok().and_then(|v| v.parse::<u64>().ok()) == Some(case) {
            eprintln!("SCRIPT {:?}", script.steps);
            for t in &all {
                eprintln!("TRACE probe {} {} {:?}: {}", t.probe, t.label, t.ctx.coord, t.evs.iter().map(|e| format!("{}{}:{}#{}", &crate::probe::kind_name(e.kind)[..1], e.ts, e.d[0], e.seq)).collect::<Vec<_>>().join(" "));
            }
        }
        let mut errs = Vec::new();
        let mut known: Vec<&'static str> = Vec::new();
        let mut wms = 0u64;
        // probes in pipeline order: a known finding at one operator explains the consequences
        // seen by the probes downstream of it in the same job
        let mut sorted: Vec<&Trace> = all.iter().collect();
        sorted.sort_by_key(|t| if t.probe == 90 { 0 } else { t.probe * 2 + 1 });
        let mut tainted_from: Option<(u32, &'static str)> = None;
        for t in sorted {
            wms += t.evs.iter().filter(|e| e.kind == K_WM).count() as u64;
            let (_, fs) = check_grammar(t);
            for f in fs.into_iter().filter(|f| f.class == wanted) {
                if let Some((p, id)) = tainted_from {
                    if t.probe > p {
                        known.push(id);
                        continue;
                    }
                }
                let op = if t.probe == 0 { None } else { ops.get(t.probe as usize - 1).copied() };
                let in_trace = all.iter().find(|x| x.probe + 1 == t.probe && x.ctx.coord == t.ctx.coord);
                match op.and_then(|op| classify_watermark_finding(op, in_trace, t)) {
                    Some(id) => {
                        known.push(id);
                        tainted_from = Some((t.probe, id));
                    }
                    None => errs.push(format!("probe after {}: {}", t.label, f.msg)),
                }
            }
        }
        report.count("watermark_jobs", 1);
        report.count("probe_traces", all.len() as u64);
        report.count("watermarks_seen", wms);
        for op in &ops {
            report.seen("operators", format!("{op:?}").split(|c: char| !c.is_alphanumeric()).next().unwrap().to_string());
        }
        report.seen("layouts", layout.name());
        if !errs.is_empty() {
            report.case(Verdict::Violated, Some(h), || detail(Some(errs.iter().take(3).cloned().collect::<Vec<_>>().join(" || "))));
        } else if !known.is_empty() {
            let mut d = detail(None);
            d["finding"] = json!(known[0]);
            report.case(Verdict::Known, Some(h), || d);
        } else {
            report.case(Verdict::Held, (wms > 0).then_some(h), || detail(None));
        }
    }
    if args.shard == 0 && wanted == Class::Watermark {
        pinned_f5(report);
    }
}

/// Pinned probe of finding F5: CountWindow::new(3,3,false), ts 1,2, W(5), end.
fn pinned_f5(report: &mut Report) {
    let script = Arc::new(Script {
        replicas: 1,
        steps: vec![(0, SEl::T { id: 1, key: 0, ts: 1 }), (0, SEl::T { id: 2, key: 0, ts: 2 }), (0, SEl::W(5)), (0, SEl::End)],
    });
    let traces = TraceSink::new();
    let (s1, tr) = (script.clone(), traces.clone());
    let res = run_job(
        &Layout::Local(1),
        RunOpts::default(),
        move |ctx, _| {
            let s = ctx.stream(ScriptSource::new(s1.clone(), None, 0)).probed(RecProbe::new(0, "source", &tr));
            apply_top(s, TOp::CountWin { n: 3, s: 3, exact: false }).probed(RecProbe::new(1, "count-window", &tr)).for_each(|_| {});
        },
        |_, _| (),
    );
    let all = traces.take();
    let out = all.iter().find(|t| t.probe == 1);
    let detail = |err: Option<String>| json!({"engine":"scripts.watermarks.pinned_F5","finding":"F5","script":"T(1) T(2) W(5) End through CountWindow(3,3,non-exact)","error":err,
        "observed": out.map(|t| t.evs.iter().map(|e| format!("{}({})", crate::probe::kind_name(e.kind), e.ts)).collect::<Vec<_>>())});
    let Some(out) = out else {
        report.case(Verdict::Inconclusive, None, || detail(Some("pinned probe did not run".into())));
        return;
    };
    if !res.all_ok() {
        report.case(Verdict::Inconclusive, None, || detail(Some("pinned probe failed".into())));
        return;
    }
    let (_, fs) = check_grammar(out);
    if fs.iter().any(|f| f.class == Class::Watermark) {
        report.case(Verdict::Known, None, || detail(None));
    } else {
        report.case(Verdict::Held, None, || detail(None));
    }
}

// ---------------------------------------------------------------------------------------------
// reorder() (C16)

pub fn run_reorder(args: &Args, report: &mut Report) {
    let rng = Rng::new(args.seed).fork(0xC16E).fork(args.shard);
    let cases = if args.thorough { 300 } else { 25 };
    let mut next_id = 0u64;
    for case in 0..cases {
        let mut crng = rng.fork(case);
        let cfg = ScriptCfg { max_replicas: 4, max_steps_per_replica: 40, iterations: 1, keys: 2, ts_span: 10 };
        let script = Arc::new(gen_script(&mut crng, &cfg, &mut next_id));
        let lockstep = crng.chance(1, 2);
        let layout = script_layout(&mut crng, script.replicas, lockstep);
        let mut conn = *crng.pick(&[TOp::Shuffle, TOp::GroupBy, TOp::ToOne]);
        let in_loop = crng.chance(1, 3);
        if in_loop && conn == TOp::ToOne {
            conn = TOp::Shuffle;
        }
        let rounds = crng.usize(2, 3);
        let traces = TraceSink::new();
        let (s1, tr) = (script.clone(), traces.clone());
        let turn = lockstep.then(|| Arc::new(AtomicUsize::new(0)));
        let batch = if crng.chance(1, 2) { BatchMode::fixed(crng.usize(1, 4)) } else { BatchMode::default() };
        let res = run_job(
            &layout,
            RunOpts::default(),
            move |ctx, _| {
                let s = ctx.stream(ScriptSource::new(s1.clone(), turn.clone(), 40)).batch_mode(batch).boxed();
                if in_loop {
                    // every round replays the same event times: nothing may be carried over
                    let tr2 = tr.clone();
                    s.shuffle()
                        .replay(
                            rounds,
                            0i64,
                            move |s, _| {
                                apply_top(s.boxed(), conn)
                                    .probed(RecProbe::new(1, "reorder-in", &tr2))
                                    .reorder()
                                    .probed(RecProbe::new(2, "reorder-out", &tr2))
                                    .drop_timestamps()
                            },
                            |d: &mut i64, r: Rec| *d += r.v,
                            |a: &mut i64, d: i64| *a += d,
                            |_| true,
                        )
                        .for_each(|_| {});
                } else {
                    apply_top(s, conn).probed(RecProbe::new(1, "reorder-in", &tr)).reorder().probed(RecProbe::new(2, "reorder-out", &tr)).for_each(|_| {});
                }
            },
            |_, _| (),
        );
        let h = mix(hash_str(&format!("{:?}", script.steps)), hash_str(&format!("{conn:?}{}", layout.name())));
        let detail = |err: Option<String>| json!({"engine":"scripts.reorder","case":case,"shard":args.shard,"seed":args.seed,"layout":layout.name(),"lockstep":lockstep,
            "connection":format!("{conn:?}"),"inside_replay_loop":in_loop,"steps":script.steps.len(),"replicas":script.replicas,"error":err});
        if in_loop {
            report.count("reorder_jobs_inside_replay_loop", 1);
        }
        if !res.all_ok() {
            report.case(Verdict::Inconclusive, None, || detail(Some(format!("job failed: {:?} {:?}", res.end, res.panic_messages()))));
            continue;
        }
        let all = traces.take();
        let mut errs = Vec::new();
        let mut elems = 0u64;
        for out in all.iter().filter(|t| t.probe == 2) {
            let Some(inp) = all.iter().find(|t| t.probe == 1 && t.ctx.coord == out.ctx.coord) else { continue };
            // per iteration: same multiset, output sorted, release rule
            let split = |t: &Trace| -> Vec<Vec<Ev>> {
                let mut v = vec![vec![]];
                for e in &t.evs {
                    if e.kind == K_FAR {
                        v.push(vec![]);
                    } else if e.kind == K_TS || e.kind == K_WM {
                        v.last_mut().unwrap().push(*e);
                    }
                }
                v
            };
            let (ii, oo) = (split(inp), split(out));
            if ii.len() != oo.len() {
                errs.push(format!("replica {:?}: {} iterations in, {} out", out.ctx.coord, ii.len(), oo.len()));
                continue;
            }
            for (it, (i, o)) in ii.iter().zip(oo.iter()).enumerate() {
                let mut a: Vec<(i64, u64)> = i.iter().filter(|e| e.kind == K_TS).map(|e| (e.ts, e.d[0])).collect();
                let b: Vec<(i64, u64)> = o.iter().filter(|e| e.kind == K_TS).map(|e| (e.ts, e.d[0])).collect();
                elems += b.len() as u64;
                if b.windows(2).any(|w| w[0].0 > w[1].0) {
                    errs.push(format!("replica {:?} iteration {it}: output of reorder() is not in non-decreasing timestamp order", out.ctx.coord));
                }
                let mut bs = b.clone();
                a.sort();
                bs.sort();
                if a != bs {
                    errs.push(format!("replica {:?} iteration {it}: reorder() lost or duplicated elements ({} in, {} out)", out.ctx.coord, a.len(), b.len()));
                }
                // release rule: an element leaves only after the input passed a watermark >= ts
                // (or the end of the iteration)
                for e in o.iter().filter(|e| e.kind == K_TS) {
                    let covered = inp.evs.iter().any(|x| x.seq < e.seq && ((x.kind == K_WM && x.ts >= e.ts) || x.kind == K_FAR || x.kind == K_TERMINATE) && x.seq > i.first().map(|f| f.seq).unwrap_or(0).saturating_sub(1));
                    if !covered {
                        errs.push(format!("replica {:?} iteration {it}: element with timestamp {} released before any watermark covered it", out.ctx.coord, e.ts));
                        break;
                    }
                }
            }
        }
        report.count("reorder_jobs", 1);
        report.count("reorder_elements_checked", elems);
        if errs.is_empty() {
            report.case(Verdict::Held, (elems > 1).then_some(h), || detail(None));
        } else {
            report.case(Verdict::Violated, Some(h), || detail(Some(errs.iter().take(3).cloned().collect::<Vec<_>>().join(" || "))));
        }
    }
}

// ---------------------------------------------------------------------------------------------
// C07: a result's timestamp is the maximum input timestamp (of its key)

pub fn run_c07_ts(args: &Args, report: &mut Report) {
    let rng = Rng::new(args.seed).fork(0xC07E).fork(args.shard);
    let cases = if args.thorough { 300 } else { 24 };
    let mut next_id = 0u64;
    for case in 0..cases {
        let mut crng = rng.fork(case);
        let cfg = ScriptCfg { max_replicas: 5, max_steps_per_replica: 30, iterations: 1, keys: 4, ts_span: 12 };
        let script = Arc::new(gen_script(&mut crng, &cfg, &mut next_id));
        let lockstep = crng.chance(1, 2);
        let layout = script_layout(&mut crng, script.replicas, lockstep);
        let conn = *crng.pick(&[TOp::Shuffle, TOp::GroupBy, TOp::ToOne]);
        let form = crng.below(7);
        let traces = TraceSink::new();
        let (s1, tr) = (script.clone(), traces.clone());
        let turn = lockstep.then(|| Arc::new(AtomicUsize::new(0)));
        let policy = if lockstep { crate::obs::Policy::none() } else { crate::engines::jobgen::random_policy(&mut crng) };
        let batch = if crng.chance(1, 2) { BatchMode::fixed(crng.usize(1, 6)) } else { BatchMode::default() };
        let res = run_job(
            &layout,
            RunOpts { policy, ..Default::default() },
            move |ctx, _| {
                let s = apply_top(ctx.stream(ScriptSource::new(s1.clone(), turn.clone(), 60)).batch_mode(batch).boxed(), conn);
                let keyed = |k: &u32, v: i64| Rec { id: *k as u64, k: *k, v };
                let out: BStream<Rec> = match form {
                    0 => s.fold(0i64, |a, r: Rec| *a += r.v).map(|v| Rec { id: 0, k: u32::MAX, v }).boxed(),
                    1 => s.reduce(|a, b| Rec { v: a.v + b.v, ..a }).map(|r| Rec { id: 0, k: u32::MAX, v: r.v }).boxed(),
                    2 => s.fold_assoc(0i64, |a, r: Rec| *a += r.v, |a, b| *a += b).map(|v| Rec { id: 0, k: u32::MAX, v }).boxed(),
                    3 => s.reduce_assoc(|a, b| Rec { v: a.v + b.v, ..a }).map(|r| Rec { id: 0, k: u32::MAX, v: r.v }).boxed(),
                    4 => s.group_by(|r: &Rec| r.k).fold(0i64, |a, r: Rec| *a += r.v).map(move |(k, v)| keyed(k, v)).drop_key().boxed(),
                    5 => s.group_by_fold(|r: &Rec| r.k, 0i64, |a, r: Rec| *a += r.v, |a, b| *a += b).map(move |(k, v)| keyed(k, v)).drop_key().boxed(),
                    _ => s.group_by_reduce(|r: &Rec| r.k, |a, b| a.v += b.v).map(move |(k, r)| keyed(k, r.v)).drop_key().boxed(),
                };
                out.probed(RecProbe::new(1, "aggregate", &tr)).for_each(|_| {});
            },
            |_, _| (),
        );
        let form_name = ["fold", "reduce", "fold_assoc", "reduce_assoc", "group_by+fold", "group_by_fold", "group_by_reduce"][form as usize];
        let h = mix(hash_str(&format!("{:?}", script.steps)), hash_str(&format!("{form_name}{conn:?}{}", layout.name())));
        let detail = |err: Option<String>| json!({"engine":"scripts.aggregate_timestamps","case":case,"shard":args.shard,"seed":args.seed,"layout":layout.name(),
            "form":form_name,"connection":format!("{conn:?}"),"lockstep":lockstep,"script_steps":script.steps.len(),"replicas":script.replicas,"error":err});
        if !res.all_ok() {
            report.case(Verdict::Inconclusive, None, || detail(Some(format!("job failed: {:?} {:?}", res.end, res.panic_messages()))));
            continue;
        }
        // expected: per key (or overall) sum and maximum timestamp
        let mut want: BTreeMap<u32, (i64, i64)> = BTreeMap::new();
        for (_, e) in &script.steps {
            if let SEl::T { key, ts, .. } = e {
                let k = if form <= 3 { u32::MAX } else { *key };
                let w = want.entry(k).or_insert((0, i64::MIN));
                w.0 += ts;
                w.1 = w.1.max(*ts);
            }
        }
        let mut got: BTreeMap<u32, Vec<(i64, i64)>> = BTreeMap::new();
        for t in traces.take() {
            for e in &t.evs {
                if e.kind == K_TS {
                    got.entry(e.d[1] as u32).or_default().push((e.d[2] as i64, e.ts));
                } else if e.kind == K_ITEM {
                    got.entry(e.d[1] as u32).or_default().push((e.d[2] as i64, i64::MIN));
                }
            }
        }
        let mut errs = Vec::new();
        for (k, (sum, maxts)) in &want {
            match got.get(k).map(|v| v.as_slice()) {
                Some([(v, ts)]) => {
                    if v != sum {
                        errs.push(format!("key {k}: aggregate {v}, sequential fold gives {sum}"));
                    }
                    if ts != maxts {
                        errs.push(format!("key {k}: the result carries timestamp {ts}, the maximum input timestamp is {maxts}"));
                    }
                }
                other => errs.push(format!("key {k}: {} results (expected exactly one)", other.map_or(0, |o| o.len()))),
            }
        }
        for k in got.keys() {
            if !want.contains_key(k) {
                errs.push(format!("a result for key {k}, which does not occur in the input"));
            }
        }
        report.count("timestamped_aggregation_jobs", 1);
        report.count("timestamped_results_checked", want.len() as u64);
        report.seen("timestamped_forms", form_name);
        if errs.is_empty() {
            report.case(Verdict::Held, (!want.is_empty()).then_some(h), || detail(None));
        } else {
            report.case(Verdict::Violated, Some(h), || detail(Some(errs.iter().take(3).cloned().collect::<Vec<_>>().join(" || "))));
        }
    }
}

// ---------------------------------------------------------------------------------------------
// C08: interval join outputs exactly the same-key pairs with l - lower <= r <= l + upper

pub fn run_interval_join(args: &Args, report: &mut Report) {
    let rng = Rng::new(args.seed).fork(0xC08E).fork(args.shard);
    let cases = if args.thorough { 300 } else { 24 };
    let mut next_id = 0u64;
    for case in 0..cases {
        let mut crng = rng.fork(case);
        let keyed = crng.chance(1, 2);
        let cfg = ScriptCfg { max_replicas: if keyed { 4 } else { 3 }, max_steps_per_replica: 25, iterations: 1, keys: if keyed { 3 } else { 1 }, ts_span: 10 };
        let left = Arc::new(gen_script(&mut crng, &cfg, &mut next_id));
        let right = Arc::new(gen_script(&mut crng, &cfg, &mut next_id));
        let lower = crng.range(0, 8);
        let upper = crng.range(0, 8);
        let need = left.replicas.max(right.replicas);
        let layout = script_layout(&mut crng, need, false);
        let batch = if crng.chance(1, 2) { BatchMode::fixed(crng.usize(1, 6)) } else { BatchMode::default() };
        let policy = crate::engines::jobgen::random_policy(&mut crng);
        let pname = policy.name.clone();
        let (l2, r2) = (left.clone(), right.clone());
        let res = run_job(
            &layout,
            RunOpts { policy, ..Default::default() },
            move |ctx, _| {
                let a = ctx.stream(ScriptSource::new(l2.clone(), None, 40)).batch_mode(batch);
                let b = ctx.stream(ScriptSource::new(r2.clone(), None, 40)).batch_mode(batch);
                if keyed {
                    a.group_by(|r: &Rec| r.k)
                        .interval_join(b.group_by(|r: &Rec| r.k), lower, upper)
                        .unkey()
                        .map(|(_, (l, r))| (l.id, r.id))
                        .collect_vec()
                } else {
                    a.interval_join(b, lower, upper).map(|(l, r)| (l.id, r.id)).collect_vec()
                }
            },
            |o, _| o.get(),
        );
        let h = mix(hash_str(&format!("{:?}{:?}", left.steps, right.steps)), mix(lower as u64, upper as u64) ^ hash_str(&layout.name()));
        let detail = |err: Option<String>| json!({"engine":"scripts.interval_join","case":case,"shard":args.shard,"seed":args.seed,"keyed":keyed,"lower":lower,"upper":upper,
            "layout":layout.name(),"batch":format!("{batch:?}"),"policy":pname,"left_steps":left.steps.len(),"right_steps":right.steps.len(),"error":err});
        if !res.all_ok() {
            let msgs = res.panic_messages().join(" | ");
            let env_problem = msgs.contains("Failed to bind") || msgs.contains("Failed to connect") || msgs.is_empty();
            let v = if env_problem { Verdict::Inconclusive } else { Verdict::Violated };
            report.case(v, (!env_problem).then_some(h), || detail(Some(format!("the job crashed on inputs that respect the watermark contract: {msgs}"))));
            continue;
        }
        let elems = |s: &Script| -> Vec<(u64, u32, i64)> {
            s.steps.iter().filter_map(|(_, e)| if let SEl::T { id, key, ts } = e { Some((*id, *key, *ts)) } else { None }).collect()
        };
        let (le, re) = (elems(&left), elems(&right));
        let mut want: Vec<(u64, u64)> = Vec::new();
        for l in &le {
            for r in &re {
                if (!keyed || l.1 == r.1) && l.2 - lower <= r.2 && r.2 <= l.2 + upper {
                    want.push((l.0, r.0));
                }
            }
        }
        want.sort();
        let mut got: Vec<(u64, u64)> = res.hosts.iter().flatten().filter_map(|h| match h { crate::run::HostOutcome::Ok(Some(v)) => Some(v.clone()), _ => None }).flatten().collect();
        got.sort();
        report.count("interval_join_jobs", 1);
        report.count("interval_join_pairs_expected", want.len() as u64);
        report.seen("interval_join_forms", if keyed { "keyed" } else { "global" });
        if got == want {
            report.case(Verdict::Held, (!want.is_empty()).then_some(h), || detail(None));
        } else {
            let missing: Vec<_> = want.iter().filter(|p| !got.contains(p)).take(3).collect();
            let extra: Vec<_> = got.iter().filter(|p| !want.contains(p)).take(3).collect();
            report.case(Verdict::Violated, Some(h), || detail(Some(format!("{} pairs produced, the interval predicate gives {}; missing e.g. {missing:?}, unexpected e.g. {extra:?}", got.len(), want.len()))));
        }
    }
}
