//! C19 — all hosts derive the same, well-formed execution graph.
//!
//! The hook `StreamContext::verif_execution_graph` computes, without starting any thread, the
//! execution graph and the address map exactly as `execute_blocking` would. For every program of a
//! catalogue and every configuration of a grid it is evaluated once per `host_id`; the dumps must
//! be identical on all hosts and satisfy the placement / link / address rules of the statement.
//! A sample of (program, configuration) pairs is also executed for real and the links actually
//! used by the workers (link log) must be exactly the dumped ones.

use std::collections::{BTreeMap, BTreeSet, HashMap, HashSet};

use renoir::operator::source::IteratorSource;
use renoir::prelude::*;
use renoir::verif::GraphDump;
use renoir::Replication;
use serde_json::json;

use crate::obs::{c3, per_link, C3};
use crate::report::{Report, Verdict};
use crate::rng::{hash_str, mix, Rng};
use crate::run::{configs, run_job, Layout, RunOpts};
use crate::Args;

type Prog = Box<dyn Fn(&StreamContext) + Sync>;

fn rep(kind: u64, n: u64) -> Replication {
    match kind % 4 {
        0 => Replication::Unlimited,
        1 => Replication::Limited(n.max(1)),
        2 => Replication::Host,
        _ => Replication::One,
    }
}

/// The catalogue: every block shape of the engine. `n` parameterises Limited(n).
fn catalogue(n: u64) -> Vec<(String, Prog)> {
    let mut v: Vec<(String, Prog)> = Vec::new();
    let mut add = |name: &str, f: Prog| v.push((format!("{name}[n={n}]"), f));
    add("par_map_collect", Box::new(|c| { c.stream_par_iter(0..100u64).map(|x| x + 1).collect_vec(); }));
    add("iter_shuffle_collect", Box::new(|c| { c.stream_iter(0..100u64).shuffle().map(|x| x + 1).collect_vec(); }));
    add("group_by_fold", Box::new(|c| { c.stream_par_iter(0..100u64).group_by(|x| x % 7).fold(0u64, |a, x| *a += x).collect_vec(); }));
    add("group_by_sum_two_phase", Box::new(|c| { c.stream_par_iter(0..100u64).group_by_sum(|x| x % 7, |x| x).collect_vec(); }));
    add("limited", Box::new(move |c| { c.stream_par_iter(0..100u64).replication(Replication::Limited(n)).map(|x| x).collect_vec(); }));
    add("limited_then_shuffle", Box::new(move |c| { c.stream_par_iter(0..100u64).shuffle().replication(Replication::Limited(n)).shuffle().collect_vec(); }));
    add("host_then_all", Box::new(|c| { c.stream_par_iter(0..100u64).replication(Replication::Host).map(|x| x).collect_vec_all(); }));
    add("one_then_unlimited_shuffle", Box::new(|c| { c.stream_iter(0..50u64).map(|x| x).shuffle().collect_count(); }));
    add("limited_limited", Box::new(move |c| { c.stream_par_iter(0..100u64).replication(Replication::Limited(n + 2)).map(|x| x).replication(Replication::Limited(n)).collect_vec(); }));
    add("limited_host", Box::new(move |c| { c.stream_par_iter(0..100u64).replication(Replication::Limited(n)).replication(Replication::Host).collect_vec(); }));
    add("broadcast", Box::new(|c| { c.stream_iter(0..20u64).broadcast().map(|x| x).collect_vec(); }));
    add("split3", Box::new(|c| {
        let mut s = c.stream_par_iter(0..100u64).split(3);
        s.pop().unwrap().shuffle().collect_vec();
        s.pop().unwrap().group_by(|x| x % 3).reduce(|a, b| *a += b).collect_vec();
        s.pop().unwrap().map(|x| x).collect_count();
    }));
    add("route3", Box::new(|c| {
        let mut r = c.stream_par_iter(0..100u64).route().add_route(|x| x % 3 == 0).add_route(|x| x % 3 == 1).add_route(|_| true).build().into_iter();
        r.next().unwrap().collect_vec();
        r.next().unwrap().shuffle().collect_vec();
        r.next().unwrap().for_each(|_| {});
    }));
    add("join_hash", Box::new(|c| {
        let a = c.stream_par_iter(0..50u64);
        let b = c.stream_par_iter(0..50u64);
        a.join(b, |x| x % 5, |y| y % 5).collect_vec();
    }));
    add("join_broadcast", Box::new(|c| {
        let a = c.stream_par_iter(0..50u64);
        let b = c.stream_iter(0..10u64);
        a.join_with(b, |x| x % 5, |y| y % 5).ship_broadcast_right().local_hash().inner().collect_vec();
    }));
    add("merge", Box::new(|c| {
        let a = c.stream_par_iter(0..50u64);
        let b = c.stream_par_iter(50..70u64);
        a.merge(b).collect_vec();
    }));
    add("merge_shuffled", Box::new(|c| {
        let a = c.stream_par_iter(0..50u64).shuffle();
        let b = c.stream_iter(50..70u64).shuffle();
        a.merge(b).collect_vec();
    }));
    add("zip", Box::new(|c| {
        let a = c.stream_par_iter(0..50u64).shuffle();
        let b = c.stream_par_iter(50..70u64);
        a.zip(b).collect_vec();
    }));
    add("diamond", Box::new(|c| {
        let mut s = c.stream_par_iter(0..100u64).split(2);
        let a = s.pop().unwrap().shuffle().map(|x| x * 2);
        let b = s.pop().unwrap().group_by(|x| x % 3).drop_key();
        a.merge(b).collect_vec();
    }));
    add("replay_shuffle", Box::new(|c| {
        c.stream_par_iter(0..30u64).shuffle().replay(3, 0u64, |s, _| s.shuffle().map(|x| x + 1), |d: &mut u64, x| *d += x, |a, d| *a += d, |_| true).collect_vec();
    }));
    add("replay_plain", Box::new(|c| {
        c.stream_par_iter(0..30u64).replay(3, 0u64, |s, _| s.map(|x| x + 1), |d: &mut u64, x| *d += x, |a, d| *a += d, |_| true).collect_vec();
    }));
    add("iterate_shuffle", Box::new(|c| {
        let (st, out) = c.stream_par_iter(0..30u64).shuffle().iterate(3, 0u64, |s, _| s.shuffle().map(|x| x + 1), |d: &mut u64, x| *d += x, |a, d| *a += d, |_| true);
        st.collect_vec();
        out.collect_vec();
    }));
    add("iterate_group_by", Box::new(|c| {
        let (st, out) = c.stream_par_iter(0..30u64).iterate(2, 0u64, |s, _| s.group_by(|x| x % 4).drop_key(), |d: &mut u64, x| *d += x, |a, d| *a += d, |_| true);
        st.for_each(|_| {});
        out.collect_count();
    }));
    add("replay_side_input", Box::new(|c| {
        let side = c.stream_iter(100..105u64).shuffle();
        c.stream_par_iter(0..30u64).shuffle().replay(2, 0u64, move |s, _| s.merge(side), |d: &mut u64, x| *d += x, |a, d| *a += d, |_| true).collect_vec();
    }));
    add("fold_assoc_window_all", Box::new(|c| {
        c.stream_par_iter(0..30u64).fold_assoc(0u64, |a, x| *a += x, |a, b| *a += b).collect_vec();
        c.stream_par_iter(0..30u64).window_all(CountWindow::tumbling(4)).sum::<u64>().collect_vec();
    }));
    add("channel_sinks", Box::new(|c| {
        let _ = c.stream_par_iter(0..30u64).collect_channel();
        let _ = c.stream_par_iter(0..30u64).shuffle().collect_channel_parallel();
        c.stream(IteratorSource::new(0..5u64)).collect::<Vec<_>>();
        c.stream_par_iter(0..30u64).collect_all::<Vec<_>>();
    }));
    for k in 0..4u64 {
        for k2 in 0..4u64 {
            add(&format!("rep{k}_rep{k2}"), Box::new(move |c| {
                c.stream_par_iter(0..30u64).replication(rep(k, n)).map(|x| x).shuffle().replication(rep(k2, n + 1)).collect_vec();
            }));
        }
    }
    v
}

fn grid(args: &Args) -> Vec<Layout> {
    let cores = [1u64, 2, 3, 5, 8];
    let mut g: Vec<Layout> = (1..=8).map(Layout::Local).collect();
    for &a in &cores {
        g.push(Layout::Remote(vec![a]));
        for &b in &cores {
            g.push(Layout::Remote(vec![a, b]));
            for &c in &cores {
                g.push(Layout::Remote(vec![a, b, c]));
            }
        }
    }
    // 4 and 5 hosts: sampled deterministically (complete for quick = a fixed subset)
    let mut rng = Rng::new(args.seed).fork(0xC19);
    let extra = if args.thorough { 120 } else { 24 };
    for _ in 0..extra {
        let h = rng.usize(4, 5);
        g.push(Layout::Remote((0..h).map(|_| *rng.pick(&cores)).collect()));
    }
    g.push(Layout::Remote(vec![2, 1, 1]));
    g.push(Layout::Remote(vec![2, 2, 2, 2]));
    g.push(Layout::Remote(vec![3, 1, 2]));
    g.push(Layout::Remote(vec![1, 1, 1, 1]));
    g.push(Layout::Remote(vec![1, 1, 1, 1, 1]));
    g.push(Layout::Remote(vec![8, 1, 8, 1, 8]));
    g
}

fn expected_replicas(replication: &str, block: u64, layout: &Layout) -> Result<Vec<C3>, String> {
    let cores = layout.cores();
    let mut v = Vec::new();
    if replication == "Unlimited" {
        for (h, &c) in cores.iter().enumerate() {
            for r in 0..c {
                v.push((block, h as u64, r));
            }
        }
    } else if replication == "Host" {
        for h in 0..cores.len() {
            v.push((block, h as u64, 0));
        }
    } else if replication == "One" {
        v.push((block, 0, 0));
    } else if let Some(n) = replication.strip_prefix("Limited(").and_then(|s| s.strip_suffix(')')) {
        let mut remaining: u64 = n.parse().map_err(|_| format!("bad replication {replication}"))?;
        for (h, &c) in cores.iter().enumerate() {
            let k = remaining.min(c);
            for r in 0..k {
                v.push((block, h as u64, r));
            }
            remaining -= k;
        }
    } else {
        return Err(format!("unknown replication requirement {replication}"));
    }
    Ok(v)
}

/// Check one dump against the rules of the statement. Returns the list of problems.
fn check_dump(d: &GraphDump, layout: &Layout, cfg_hosts: &[(String, u16)]) -> Vec<String> {
    let mut errs = Vec::new();
    let mut replicas: HashMap<u64, Vec<C3>> = HashMap::new();
    for b in &d.blocks {
        let got: Vec<C3> = b.replicas.iter().map(|(c, _)| c3(*c)).collect();
        match expected_replicas(&b.replication, b.block_id, layout) {
            Ok(mut want) => {
                want.sort();
                let mut g = got.clone();
                g.sort();
                if g != want {
                    errs.push(format!("block {} ({}): replicas {g:?}, placement rule gives {want:?}", b.block_id, b.replication));
                }
            }
            Err(e) => errs.push(e),
        }
        let mut ids: Vec<u64> = b.replicas.iter().map(|(_, g)| *g).collect();
        ids.sort();
        if ids != (0..b.replicas.len() as u64).collect::<Vec<_>>() {
            errs.push(format!("block {}: global ids {ids:?} are not a bijection onto [0,{})", b.block_id, b.replicas.len()));
        }
        replicas.insert(b.block_id, got);
    }
    // links, grouped by job-graph edge
    let flags: HashMap<u64, bool> = d.blocks.iter().map(|b| (b.block_id, b.is_only_one_strategy)).collect();
    let mut edges: BTreeMap<(u64, u64, String, bool), BTreeSet<(C3, C3)>> = BTreeMap::new();
    for (from, to, typ, fragile) in &d.links {
        if !edges.entry((from.block_id, to.block_id, typ.clone(), *fragile)).or_default().insert((c3(*from), c3(*to))) {
            errs.push(format!("duplicate link {from} -> {to}"));
        }
    }
    for ((fb, tb, _typ, fragile), links) in &edges {
        let producers = replicas.get(fb).cloned().unwrap_or_default();
        let consumers = replicas.get(tb).cloned().unwrap_or_default();
        let forward = *fragile || flags.get(fb).copied().unwrap_or(false);
        for (f, t) in links {
            if !producers.contains(f) || !consumers.contains(t) {
                errs.push(format!("link {f:?} -> {t:?} uses a replica that does not exist"));
            }
        }
        if forward {
            for p in &producers {
                let outs: Vec<_> = links.iter().filter(|(f, _)| f == p).map(|(_, t)| *t).collect();
                let same = consumers.iter().find(|c| c.1 == p.1 && c.2 == p.2);
                if outs.len() != 1 {
                    // a fragile link whose same-index consumer does not exist cannot be used by anyone
                    if !(*fragile && same.is_none() && outs.is_empty()) {
                        errs.push(format!("forward edge b{fb}->b{tb}: producer {p:?} has {} consumers {outs:?} (expected exactly 1)", outs.len()));
                    }
                } else if let Some(s) = same {
                    if outs[0] != *s {
                        errs.push(format!("forward edge b{fb}->b{tb}: producer {p:?} is linked to {:?} although the same-index consumer {s:?} exists", outs[0]));
                    }
                }
            }
        } else {
            let want: BTreeSet<(C3, C3)> = producers.iter().flat_map(|p| consumers.iter().map(move |c| (*p, *c))).collect();
            if *links != want {
                errs.push(format!("edge b{fb}->b{tb} is not all-to-all: {} links, expected {}", links.len(), want.len()));
            }
        }
    }
    // addresses
    if let Layout::Remote(_) = layout {
        let mut need: BTreeSet<(u64, u64, u64)> = BTreeSet::new();
        for (from, to, _, _) in &d.links {
            // every demultiplexer (block, host, prev block) that has at least one remote producer
            if from.host_id != to.host_id {
                need.insert((to.block_id, to.host_id, from.block_id));
            }
        }
        let have: BTreeMap<(u64, u64, u64), (String, u16)> = d.addresses.iter().map(|(k, a, p)| (*k, (a.clone(), *p))).collect();
        if have.len() != d.addresses.len() {
            errs.push("a demultiplexer has two addresses".into());
        }
        for k in &need {
            if !have.contains_key(k) {
                errs.push(format!("remote endpoint {k:?} has no address"));
            }
        }
        let mut used: HashSet<(u64, u16)> = HashSet::new();
        for (k, (addr, port)) in &have {
            let (haddr, base) = &cfg_hosts[k.1 as usize];
            if addr != haddr {
                errs.push(format!("demux {k:?} is assigned address {addr}, host {} is {haddr}", k.1));
            }
            if *port < *base {
                errs.push(format!("demux {k:?} port {port} below the base port {base}"));
            }
            if !used.insert((k.1, *port)) {
                errs.push(format!("two endpoints of host {} share port {port}", k.1));
            }
        }
    } else if !d.addresses.is_empty() {
        errs.push("local configuration with remote addresses".into());
    }
    errs
}

fn dumps_for(prog: &Prog, layout: &Layout) -> Result<(Vec<GraphDump>, Vec<(String, u16)>), String> {
    let cfgs = configs(layout);
    let hosts: Vec<(String, u16)> = match &cfgs[0] {
        renoir::RuntimeConfig::Remote(r) => r.hosts.iter().map(|h| (h.address.clone(), h.base_port)).collect(),
        _ => vec![],
    };
    let mut out = Vec::new();
    for cfg in cfgs {
        let r = std::panic::catch_unwind(std::panic::AssertUnwindSafe(|| {
            let ctx = StreamContext::new(cfg);
            prog(&ctx);
            ctx.verif_execution_graph()
        }));
        match r {
            Ok(d) => out.push(d),
            Err(e) => {
                return Err(e.downcast_ref::<String>().cloned().or_else(|| e.downcast_ref::<&str>().map(|s| s.to_string())).unwrap_or_default())
            }
        }
    }
    Ok((out, hosts))
}

pub fn run(args: &Args, report: &mut Report) {
    let grid = grid(args);
    let ns: &[u64] = if args.thorough { &[1, 2, 3, 4, 6, 9, 17] } else { &[2, 3, 17] };
    let mut idx = 0u64;
    let mut exec_budget = if args.thorough { 40 } else { 6 };
    let mut rng = Rng::new(args.seed).fork(0xC19E).fork(args.shard);
    for &n in ns {
        let cat = catalogue(n);
        for (name, prog) in &cat {
            for layout in &grid {
                idx += 1;
                if idx % args.shards != args.shard {
                    continue;
                }
                let h = mix(hash_str(name), hash_str(&layout.name()));
                let detail = |err: Option<String>, d: Option<&GraphDump>| {
                    json!({"engine":"graphdump","program":name,"layout":layout.name(),
                           "blocks": d.map(|d| d.blocks.iter().map(|b| format!("b{} {} x{}", b.block_id, b.replication, b.replicas.len())).collect::<Vec<_>>()),
                           "links": d.map(|d| d.links.len()), "addresses": d.map(|d| d.addresses.len()),
                           "error":err})
                };
                let (dumps, hosts) = match dumps_for(prog, layout) {
                    Ok(x) => x,
                    Err(e) => {
                        // the engine rejects some (program, layout) pairs at graph construction;
                        // this is a precondition failure, not a finding: count it
                        report.count("rejected_by_engine", 1);
                        report.seen("rejections", e.chars().take(80).collect::<String>());
                        continue;
                    }
                };
                report.count("dumps", dumps.len() as u64);
                report.count("links_checked", dumps[0].links.len() as u64);
                report.count("addresses_checked", dumps[0].addresses.len() as u64);
                report.seen("layout_shapes", format!("{} hosts", layout.hosts()));
                let mut errs = Vec::new();
                for (i, d) in dumps.iter().enumerate().skip(1) {
                    if *d != dumps[0] {
                        errs.push(format!("host {i} derives a different graph than host 0"));
                    }
                }
                errs.extend(check_dump(&dumps[0], layout, &hosts));
                if errs.is_empty() {
                    report.case(Verdict::Held, Some(h), || detail(None, Some(&dumps[0])));
                } else {
                    report.case(Verdict::Violated, Some(h), || detail(Some(errs.join("; ")), Some(&dumps[0])));
                    continue;
                }
                // real execution of a sample: the links used == the links dumped
                // (a forward connection towards replicas that have no producer is rejected by the
                // engine when the workers are set up: such configurations are dumped, not executed)
                let orphan_consumers = {
                    let with_input: HashSet<C3> = dumps[0].links.iter().map(|(_, t, _, _)| c3(*t)).collect();
                    let fed_blocks: HashSet<u64> = dumps[0].links.iter().map(|(_, t, _, _)| t.block_id).collect();
                    dumps[0].blocks.iter().filter(|b| fed_blocks.contains(&b.block_id)).any(|b| b.replicas.iter().any(|(c, _)| !with_input.contains(&c3(*c))))
                };
                // configurations in which two replicas of a narrowed block on one host are fed by
                // different remote hosts are always executed
                let always = (name.starts_with("limited[") || name.starts_with("limited_then_shuffle["))
                    && matches!(layout, Layout::Remote(c) if c == &vec![2, 1, 1] || c == &vec![2, 2, 2, 2] || c == &vec![3, 1, 2]);
                if (always || (exec_budget > 0 && rng.chance(1, 40) && layout.total_cores() <= 9)) && !name.starts_with("channel_sinks") && !orphan_consumers && idx > args.skip {
                    if !always {
                        exec_budget -= 1;
                    }
                    crate::report::RESUME_FROM.store(idx, std::sync::atomic::Ordering::SeqCst);
                    {
                        let (n2, l2) = (name.clone(), layout.name());
                        crate::run::on_no_return(move |end, census, r| {
                            let d = json!({"engine":"graphdump.exec","program":n2,"layout":l2,"error":format!("executed sample did not return: {end:?}"),"census":crate::run::census_json(census)});
                            r.case(Verdict::Inconclusive, None, || d);
                        });
                    }
                    let res = run_job(layout, RunOpts { log_links: true, ..Default::default() }, |ctx, _| prog(ctx), |_, _| ());
                    if !res.all_ok() {
                        report.case(Verdict::Inconclusive, None, || detail(Some(format!("execution failed: {:?}", res.panic_messages())), None));
                        continue;
                    }
                    let (sent, recv) = per_link(&res.log);
                    let used: BTreeSet<(C3, C3)> = sent.keys().map(|(f, t)| (*f, t.0)).collect();
                    let used_r: BTreeSet<(C3, C3)> = recv.keys().map(|(f, t)| (*f, t.0)).collect();
                    let dumped: BTreeSet<(C3, C3)> = dumps[0].links.iter().map(|(f, t, _, _)| (c3(*f), c3(*t))).collect();
                    report.count("executions_compared_with_dump", 1);
                    if used != dumped || used_r != dumped {
                        let only_used: Vec<_> = used.difference(&dumped).take(4).collect();
                        let only_dumped: Vec<_> = dumped.difference(&used).take(4).collect();
                        report.case(Verdict::Violated, Some(h ^ 1), || detail(Some(format!(
                            "links used by the workers differ from the dumped graph: used only {only_used:?}, dumped only {only_dumped:?}")), Some(&dumps[0])));
                    } else {
                        report.case(Verdict::Held, Some(h ^ 1), || detail(None, Some(&dumps[0])));
                    }
                }
            }
        }
    }
}
