//! C13 — event-time and transaction windows; C14 — processing-time and session windows.
//!
//! The real window managers are driven directly through `process` (scripts of timestamped
//! elements and watermarks, or wall-clock pauses) and end-to-end in keyed pipelines; results are
//! id sets. The oracles only constrain what the statements constrain (window boundaries of
//! event-time windows depend on the first arrival and are not predicted): partition / cover /
//! interval / firing rules for C13, timing-independent conservation and order for C14.

use std::collections::{BTreeMap, HashMap, HashSet};
use std::sync::atomic::AtomicUsize;
use std::sync::Arc;
use std::time::{Duration, Instant};

use renoir::operator::source::ChannelSource;
use renoir::operator::window::{
    EventTimeWindow, ProcessingTimeWindow, SessionWindow, TransactionOp, TransactionWindow,
    WindowAccumulator, WindowDescription, WindowManager, WindowResult,
};
use renoir::operator::StreamElement;
use renoir::prelude::*;
use serde_json::json;

use crate::engines::scripts::{gen_script, SEl, ScriptCfg, ScriptSource};
use crate::jobgen::types::Rec;
use crate::probe::{BoxExt, RecProbe, TraceSink, K_FAR, K_TERMINATE, K_TS, K_WM};
use crate::report::{Report, Verdict};
use crate::rng::{hash_str, mix, Rng};
use crate::run::{run_job, HostOutcome, Layout, RunOpts};
use crate::Args;

#[derive(Clone, Default)]
struct Ids(Vec<(u64, i64)>);

impl WindowAccumulator for Ids {
    type In = (u64, i64);
    type Out = Vec<(u64, i64)>;
    fn process(&mut self, el: (u64, i64)) {
        self.0.push(el);
    }
    fn output(self) -> Self::Out {
        self.0
    }
}

#[derive(Clone, Copy, Debug, PartialEq)]
enum Step {
    T(u64, i64),
    W(i64),
    End,
}

/// A valid single-producer script: after W(w) only timestamps > w.
fn gen_steps(rng: &mut Rng, n: usize, span: i64, next_id: &mut u64, iterations: usize) -> Vec<Step> {
    let mut v = Vec::new();
    for _ in 0..iterations {
        let mut last_w = -1i64;
        let mut horizon = 0i64;
        let m = rng.usize(0, n);
        for _ in 0..m {
            match rng.below(10) {
                0 | 1 | 2 => {
                    let w = match rng.below(4) {
                        0 => last_w + 1,
                        1 => horizon.max(last_w + 1),
                        2 => (horizon - 1).max(last_w + 1),
                        _ => horizon.max(last_w + 1) + rng.range(0, span),
                    };
                    v.push(Step::W(w));
                    last_w = w;
                }
                3 if rng.chance(1, 3) => {
                    // idle gap: a watermark far ahead (all windows closed), then sparse data
                    let w = horizon.max(last_w) + rng.range(10, 40);
                    v.push(Step::W(w));
                    last_w = w;
                }
                _ => {
                    *next_id += 1;
                    let ts = last_w + 1 + rng.range(0, span);
                    v.push(Step::T(*next_id, ts));
                    horizon = horizon.max(ts);
                }
            }
        }
        v.push(Step::End);
    }
    v
}

struct EtResult {
    ids: Vec<(u64, i64)>,
    end: i64,
    /// index of the step whose processing emitted it
    at_step: usize,
}

/// Checks of the C13 statement on one key's history. `steps` are the inputs in arrival order.
fn check_event_time(size: i64, slide: i64, steps: &[Step], results: &[EtResult]) -> Result<(u64, u64), String> {
    let tumbling = size == slide;
    let max_cover = ((size + slide - 1) / slide) as usize;
    // iteration boundaries
    let mut iter_of_step = Vec::new();
    let mut it = 0;
    for s in steps {
        iter_of_step.push(it);
        if *s == Step::End {
            it += 1;
        }
    }
    let mut cover: HashMap<u64, usize> = HashMap::new();
    let mut boundary_hits = 0u64;
    for r in results {
        if r.ids.is_empty() {
            return Err(format!("empty window result with end {}", r.end));
        }
        let mut seen = HashSet::new();
        for (id, ts) in &r.ids {
            if !(r.end - size <= *ts && *ts < r.end) {
                return Err(format!("result with end {} (window [{}, {})) contains element {id} with timestamp {ts}", r.end, r.end - size, r.end));
            }
            if !seen.insert(*id) {
                return Err(format!("result with end {} contains element {id} twice", r.end));
            }
            *cover.entry(*id).or_default() += 1;
        }
        // firing: no earlier than a watermark >= end (or the end of the iteration)
        let trigger = steps[r.at_step];
        match trigger {
            Step::W(w) => {
                if w < r.end {
                    return Err(format!("result with end {} emitted while processing Watermark({w}), before any watermark reached its end", r.end));
                }
                if w == r.end {
                    boundary_hits += 1;
                }
            }
            Step::End => {}
            Step::T(id, _) => return Err(format!("result with end {} emitted while processing data element {id}", r.end)),
        }
        // ... and no later than the first watermark beyond it: every watermark > end seen before
        // the trigger (in the same iteration) would be too late
        for (j, s) in steps.iter().enumerate().take(r.at_step) {
            if iter_of_step[j] == iter_of_step[r.at_step] {
                if let Step::W(w) = s {
                    if *w > r.end && r.ids.iter().all(|(id, _)| steps[..j].iter().any(|x| matches!(x, Step::T(i, _) if i == id))) {
                        return Err(format!("result with end {} was still not emitted after Watermark({w}) although all its elements had arrived", r.end));
                    }
                }
            }
        }
        // elements of one iteration only
        let iters: HashSet<usize> = r
            .ids
            .iter()
            .filter_map(|(id, _)| steps.iter().position(|s| matches!(s, Step::T(i, _) if i == id)).map(|p| iter_of_step[p]))
            .collect();
        if iters.len() > 1 || iters.iter().any(|i| *i != iter_of_step[r.at_step]) {
            return Err(format!("result with end {} mixes or carries over elements of iterations {iters:?} (emitted in iteration {})", r.end, iter_of_step[r.at_step]));
        }
    }
    let mut elems = 0u64;
    for s in steps {
        if let Step::T(id, ts) = s {
            elems += 1;
            let c = cover.get(id).copied().unwrap_or(0);
            if tumbling && c != 1 {
                return Err(format!("tumbling window: element {id} (ts {ts}) appears in {c} results (expected exactly 1)"));
            }
            if !tumbling && slide <= size && !(1..=max_cover).contains(&c) {
                return Err(format!("sliding window: element {id} (ts {ts}) appears in {c} results (expected 1..={max_cover})"));
            }
        }
    }
    Ok((elems, boundary_hits))
}

fn c13_direct(args: &Args, report: &mut Report, rng: &mut Rng) {
    let cases = if args.thorough { 30_000 } else { 2500 };
    let mut next_id = 0u64;
    for _ in 0..cases {
        let size = rng.range(1, 12);
        let slide = if rng.chance(1, 2) { size } else { rng.range(1, size) };
        let (n, span, iters) = (rng.usize(1, 25), rng.range(1, 14), rng.usize(1, 3));
        let steps = gen_steps(rng, n, span, &mut next_id, iters);
        let fresh = || EventTimeWindow::sliding(size, slide).build(Ids::default());
        let mut mgr = fresh();
        let mut results = Vec::new();
        let mut err = None;
        for (i, s) in steps.iter().enumerate() {
            let el = match s {
                Step::T(id, ts) => StreamElement::Timestamped((*id, *ts), *ts),
                Step::W(w) => StreamElement::Watermark(*w),
                Step::End => StreamElement::FlushAndRestart,
            };
            let out = std::panic::catch_unwind(std::panic::AssertUnwindSafe(|| {
                let out = mgr.process(el);
                // exactly what WindowOperator does after a non-data element: a manager that
                // reports it can be recycled is dropped and a fresh one is created on demand
                if !matches!(s, Step::T(..)) && mgr.recycle() {
                    mgr = fresh();
                }
                out
            }));
            match out {
                Ok(out) => {
                    for r in out {
                        match r {
                            WindowResult::Timestamped(ids, end) => results.push(EtResult { ids, end, at_step: i }),
                            WindowResult::Item(_) => err = Some("event-time window produced a result without timestamp".to_string()),
                        }
                    }
                }
                Err(_) => {
                    err = Some(format!("the window manager panicked on step {i} ({s:?}) of a script that respects the watermark contract"));
                    break;
                }
            }
        }
        let h = mix(mix(size as u64, slide as u64), hash_str(&format!("{steps:?}")));
        let detail = |e: Option<String>| json!({"engine":"winmon.event_time.direct","size":size,"slide":slide,
            "steps": steps.iter().map(|s| format!("{s:?}")).collect::<Vec<_>>(),
            "results": results.iter().map(|r| format!("end {} at step {}: {:?}", r.end, r.at_step, r.ids)).collect::<Vec<_>>(),"error":e});
        let verdict = err.map(Err).unwrap_or_else(|| check_event_time(size, slide, &steps, &results));
        report.count("event_time_direct_scripts", 1);
        match verdict {
            Ok((elems, hits)) => {
                report.count("event_time_elements_checked", elems);
                report.count("event_time_results_checked", results.len() as u64);
                report.count("watermark_equal_to_window_end", hits);
                report.case(Verdict::Held, (results.len() >= 2).then_some(h), || detail(None));
            }
            Err(e) => report.case(Verdict::Violated, Some(h), || detail(Some(e))),
        }
    }
}

// ---- transaction windows ---------------------------------------------------------------------

#[derive(Clone, Copy, Debug, PartialEq)]
enum Tx {
    Continue,
    Commit,
    CommitAfter(i64),
    Discard,
}

fn tx_of(v: &(u64, i64, u8, i64)) -> Tx {
    match v.2 {
        0 => Tx::Continue,
        1 => Tx::Commit,
        2 => Tx::CommitAfter(v.3),
        _ => Tx::Discard,
    }
}

#[derive(Clone, Default)]
struct TxIds(Vec<u64>);
impl WindowAccumulator for TxIds {
    type In = (u64, i64, u8, i64);
    type Out = Vec<u64>;
    fn process(&mut self, el: Self::In) {
        self.0.push(el.0);
    }
    fn output(self) -> Vec<u64> {
        self.0
    }
}

/// Model of "commit exactly as the user logic dictates".
struct TxModel {
    cur: Option<(Vec<u64>, Option<i64>)>,
}
impl TxModel {
    fn step(&mut self, s: &TxStep) -> Option<Vec<u64>> {
        match s {
            TxStep::T(el) => {
                let w = self.cur.get_or_insert_with(|| (Vec::new(), None));
                w.0.push(el.0);
                match tx_of(el) {
                    Tx::Continue => None,
                    Tx::Commit => self.cur.take().map(|w| w.0),
                    Tx::CommitAfter(t) => {
                        w.1 = Some(t);
                        None
                    }
                    Tx::Discard => {
                        self.cur = None;
                        None
                    }
                }
            }
            TxStep::W(ts) => match &self.cur {
                Some((_, Some(close))) if close < ts => self.cur.take().map(|w| w.0),
                _ => None,
            },
            TxStep::End => match &self.cur {
                Some((_, Some(_))) => self.cur.take().map(|w| w.0),
                _ => None,
            },
        }
    }
}

#[derive(Clone, Debug)]
enum TxStep {
    T((u64, i64, u8, i64)),
    W(i64),
    End,
}

fn c13_transactions(args: &Args, report: &mut Report, rng: &mut Rng) {
    let cases = if args.thorough { 20_000 } else { 2000 };
    let mut id = 0u64;
    for _ in 0..cases {
        let n = rng.usize(1, 25);
        let mut steps = Vec::new();
        let mut ts = 0i64;
        let mut last_w = -1i64;
        for _ in 0..n {
            match rng.below(10) {
                0 | 1 | 2 => {
                    let w = last_w + 1 + rng.range(0, 6);
                    steps.push(TxStep::W(w));
                    last_w = w;
                    ts = ts.max(w + 1);
                }
                3 if rng.chance(1, 3) => steps.push(TxStep::End),
                _ => {
                    id += 1;
                    ts = ts.max(last_w + 1) + rng.range(0, 2);
                    let op = match rng.below(8) {
                        0 | 1 | 2 | 3 => 0u8,
                        4 => 1,
                        5 | 6 => 2,
                        _ => 3,
                    };
                    steps.push(TxStep::T((id, ts, op, ts + rng.range(0, 5))));
                }
            }
        }
        steps.push(TxStep::End);
        let descr = TransactionWindow::new(|el: &(u64, i64, u8, i64)| match tx_of(el) {
            Tx::Continue => TransactionOp::Continue,
            Tx::Commit => TransactionOp::Commit,
            Tx::CommitAfter(t) => TransactionOp::CommitAfter(t),
            Tx::Discard => TransactionOp::Discard,
        });
        let mut mgr = descr.build(TxIds::default());
        let mut model = TxModel { cur: None };
        let mut err = None;
        let mut commits = 0u64;
        for (i, s) in steps.iter().enumerate() {
            let el = match s {
                TxStep::T(el) => StreamElement::Timestamped(*el, el.1),
                TxStep::W(w) => StreamElement::Watermark(*w),
                TxStep::End => StreamElement::FlushAndRestart,
            };
            let got = mgr.process(el).map(|r| r.unwrap_item());
            let want = model.step(s);
            if want.is_some() {
                commits += 1;
            }
            if got != want {
                err = Some(format!("step {i} ({s:?}): the window committed {got:?}, the user logic dictates {want:?}"));
                break;
            }
        }
        let h = hash_str(&format!("{steps:?}"));
        let detail = |e: Option<String>| json!({"engine":"winmon.transaction.direct","steps":steps.iter().map(|s| format!("{s:?}")).collect::<Vec<_>>(),"error":e});
        report.count("transaction_scripts", 1);
        report.count("transaction_commits_checked", commits);
        match err {
            None => report.case(Verdict::Held, (commits >= 1).then_some(h), || detail(None)),
            Some(e) => report.case(Verdict::Violated, Some(h), || detail(Some(e))),
        }
    }
}

/// End-to-end: several source replicas, keyed event-time windows; the firing rule is checked with
/// probes before and after the window operator (same thread).
fn c13_e2e(args: &Args, report: &mut Report, rng: &mut Rng) {
    let cases = if args.thorough { 300 } else { 24 };
    let mut next_id = 0u64;
    for case in 0..cases {
        let mut crng = rng.fork(case);
        let cfg = ScriptCfg { max_replicas: 4, max_steps_per_replica: 40, iterations: 1, keys: 3, ts_span: 9 };
        let script = Arc::new(gen_script(&mut crng, &cfg, &mut next_id));
        let size = crng.range(1, 12);
        let slide = if crng.chance(1, 2) { size } else { crng.range(1, size) };
        let lockstep = crng.chance(1, 2);
        let need = script.replicas as u64;
        let layout = if lockstep { Layout::Local(need + crng.below(3)) } else { crng.pick(&[Layout::Local(need + 1), Layout::Remote(vec![need, 2]), Layout::Remote(vec![1, need, 1])]).clone() };
        let traces = TraceSink::new();
        let (s1, tr) = (script.clone(), traces.clone());
        let turn = lockstep.then(|| Arc::new(AtomicUsize::new(0)));
        let batch = if crng.chance(1, 2) { BatchMode::fixed(crng.usize(1, 5)) } else { BatchMode::default() };
        // one case in three: the windowed pipeline is the body of a replay loop (every round must
        // window the same elements again; nothing may survive a round)
        let in_loop = crng.chance(1, 3);
        let rounds = if in_loop { crng.usize(2, 3) } else { 1 };
        let recorded: Arc<std::sync::Mutex<Vec<(u32, Vec<(u64, i64)>)>>> = Default::default();
        let rec2 = recorded.clone();
        let res = run_job(
            &layout,
            RunOpts::default(),
            move |ctx, _| {
                let src = ctx.stream(ScriptSource::new(s1.clone(), turn.clone(), 50)).batch_mode(batch);
                if in_loop {
                    let (tr2, rec3) = (tr.clone(), rec2.clone());
                    src.shuffle()
                        .replay(
                            rounds,
                            0i64,
                            move |s, _| {
                                s.group_by(|r: &Rec| r.k)
                                    .drop_key()
                                    .probed(RecProbe::new(1, "window-in", &tr2))
                                    .key_by(|r: &Rec| r.k)
                                    .window(EventTimeWindow::sliding(size, slide))
                                    .fold(Vec::<(u64, i64)>::new(), |a: &mut Vec<(u64, i64)>, r: Rec| a.push((r.id, r.v)))
                                    .unkey()
                                    .map(move |(k, ids)| {
                                        rec3.lock().unwrap().push((k, ids.clone()));
                                        Rec { id: ids.len() as u64, k, v: 1 }
                                    })
                                    .drop_timestamps()
                            },
                            |d: &mut i64, r: Rec| *d += r.v,
                            |a: &mut i64, d: i64| *a += d,
                            |_| true,
                        )
                        .for_each(|_| {});
                    None
                } else {
                    Some(
                        src.group_by(|r: &Rec| r.k)
                            .drop_key()
                            .probed(RecProbe::new(1, "window-in", &tr))
                            .key_by(|r: &Rec| r.k)
                            .window(EventTimeWindow::sliding(size, slide))
                            .fold(Vec::<(u64, i64)>::new(), |a: &mut Vec<(u64, i64)>, r: Rec| a.push((r.id, r.v)))
                            .collect_vec(),
                    )
                }
            },
            |o, _| o.and_then(|o| o.get()),
        );
        let h = mix(hash_str(&format!("{:?}", script.steps)), mix(size as u64, slide as u64) ^ hash_str(&layout.name()));
        let detail = |e: Option<String>| json!({"engine":"winmon.event_time.e2e","case":case,"shard":args.shard,"seed":args.seed,"size":size,"slide":slide,
            "layout":layout.name(),"lockstep":lockstep,"rounds_of_replay_loop": if in_loop { json!(rounds) } else { json!(null) },"script_steps":script.steps.len(),"replicas":script.replicas,"error":e});
        if !res.all_ok() {
            let msgs = res.panic_messages().join(" | ");
            let env_problem = msgs.contains("Failed to bind") || msgs.contains("Failed to connect") || msgs.is_empty();
            let v = if env_problem { Verdict::Inconclusive } else { Verdict::Violated };
            report.case(v, (!env_problem).then_some(h), || detail(Some(format!("the windowed job crashed on a script that respects the watermark contract (elements of that round reach no window result): {msgs}"))));
            continue;
        }
        let mut results: Vec<(u32, Vec<(u64, i64)>)> = res.hosts.iter().flatten().filter_map(|h| match h { HostOutcome::Ok(Some(v)) => Some(v.clone()), _ => None }).flatten().collect();
        results.extend(recorded.lock().unwrap().iter().cloned());
        // expected elements per key
        let mut per_key: BTreeMap<u32, Vec<(u64, i64)>> = BTreeMap::new();
        for (_, s) in &script.steps {
            if let SEl::T { id, key, ts } = s {
                per_key.entry(*key).or_default().push((*id, *ts));
            }
        }
        let tumbling = size == slide;
        let max_cover = ((size + slide - 1) / slide) as usize;
        let mut cover: HashMap<u64, usize> = HashMap::new();
        let mut err = None;
        for (k, ids) in &results {
            if ids.is_empty() {
                err = Some("empty window result".to_string());
            }
            let lo = ids.iter().map(|x| x.1).min().unwrap_or(0);
            let hi = ids.iter().map(|x| x.1).max().unwrap_or(0);
            if hi - lo >= size {
                err = Some(format!("a result of key {k} spans timestamps {lo}..={hi}, more than one window of length {size}"));
            }
            for (id, _) in ids {
                if !per_key.get(k).map_or(false, |v| v.iter().any(|x| x.0 == *id)) {
                    err = Some(format!("a result of key {k} contains element {id} of another key"));
                }
                *cover.entry(*id).or_default() += 1;
            }
        }
        for v in per_key.values() {
            for (id, ts) in v {
                let c = cover.get(id).copied().unwrap_or(0);
                if (tumbling && c != rounds) || (!tumbling && !(rounds..=rounds * max_cover).contains(&c)) {
                    err = Some(format!("element {id} (ts {ts}) appears in {c} results over {rounds} round(s)"));
                }
            }
        }
        // firing rule through the in-probe: the watermark automaton of C06 covers the output side
        let all = traces.take();
        let wms: u64 = all.iter().map(|t| t.evs.iter().filter(|e| e.kind == K_WM).count() as u64).sum();
        let _ = (K_FAR, K_TERMINATE, K_TS);
        report.count("event_time_e2e_jobs", 1);
        report.count("event_time_e2e_results", results.len() as u64);
        report.count("event_time_e2e_watermarks_at_window_input", wms);
        match err {
            None => report.case(Verdict::Held, (results.len() >= 2).then_some(h), || detail(None)),
            Some(e) => report.case(Verdict::Violated, Some(h), || detail(Some(e))),
        }
    }
}

pub fn run_c13(args: &Args, report: &mut Report) {
    let mut rng = Rng::new(args.seed).fork(0xC13).fork(args.shard);
    let sub = args.sub.as_deref();
    if sub.is_none() || sub == Some("direct") {
        c13_direct(args, report, &mut rng);
    }
    if sub.is_none() || sub == Some("transactions") {
        c13_transactions(args, report, &mut rng);
    }
    if sub.is_none() || sub == Some("e2e") {
        c13_e2e(args, report, &mut rng);
    }
    if args.shard == 0 {
        pinned_c13(report);
    }
}

/// Pinned probes of the repaired findings F3 / F4 (they must hold now).
fn pinned_c13(report: &mut Report) {
    // F4: arrivals ts 10, 5, 12, no watermark: element 5 must be in a result
    let steps = vec![Step::T(1, 10), Step::T(2, 5), Step::T(3, 12), Step::End];
    let mut mgr = EventTimeWindow::tumbling(10).build(Ids::default());
    let mut results = Vec::new();
    for (i, s) in steps.iter().enumerate() {
        let el = match s {
            Step::T(id, ts) => StreamElement::Timestamped((*id, *ts), *ts),
            Step::W(w) => StreamElement::Watermark(*w),
            Step::End => StreamElement::FlushAndRestart,
        };
        for r in mgr.process(el) {
            if let WindowResult::Timestamped(ids, end) = r {
                results.push(EtResult { ids, end, at_step: i });
            }
        }
    }
    let r = check_event_time(10, 10, &steps, &results);
    let detail = |e: Option<String>| json!({"engine":"winmon.event_time.pinned_F4","steps":"T(10) T(5) T(12) End, tumbling(10)","error":e});
    match r {
        Ok(_) => report.case(Verdict::Held, None, || detail(None)),
        Err(e) => report.case(Verdict::Violated, None, || detail(Some(e))),
    }
}

// ---------------------------------------------------------------------------------------------
// C14

#[derive(Clone, Default)]
struct Seq(Vec<u64>);
impl WindowAccumulator for Seq {
    type In = u64;
    type Out = Vec<u64>;
    fn process(&mut self, el: u64) {
        self.0.push(el);
    }
    fn output(self) -> Vec<u64> {
        self.0
    }
}

fn spin_until(t: Instant) {
    while Instant::now() < t {
        std::hint::spin_loop();
    }
}

fn pause(rng: &mut Rng, unit: Duration, classes: &mut BTreeMap<&'static str, u64>) {
    let (name, d) = match rng.below(8) {
        0 | 1 | 2 => ("none", Duration::ZERO),
        3 => ("half", unit / 2),
        4 => ("just-below", unit - unit / 20),
        5 => ("exact", unit),
        6 => ("just-above", unit + unit / 20),
        _ => ("3x", unit * 3),
    };
    *classes.entry(name).or_default() += 1;
    if !d.is_zero() {
        spin_until(Instant::now() + d);
    }
}

/// Timing-independent oracle: tumbling/session results partition the arrival sequence in order.
fn check_partition(results: &[Vec<u64>], arrivals: &[u64]) -> Result<(), String> {
    if results.iter().any(|r| r.is_empty()) {
        return Err("an empty window result was emitted".into());
    }
    let concat: Vec<u64> = results.iter().flatten().cloned().collect();
    if concat != arrivals {
        let mut a = concat.clone();
        let mut b = arrivals.to_vec();
        a.sort();
        b.sort();
        return Err(if a == b {
            format!("results do not keep the arrival order: concatenation {concat:?}, arrivals {arrivals:?}")
        } else {
            format!("results do not partition the elements: {} elements in results, {} arrived (results {results:?})", concat.len(), arrivals.len())
        });
    }
    Ok(())
}

fn check_cover(results: &[Vec<u64>], arrivals: &[u64], max_cover: usize) -> Result<(), String> {
    if results.iter().any(|r| r.is_empty()) {
        return Err("an empty window result was emitted".into());
    }
    let mut cover: HashMap<u64, usize> = HashMap::new();
    for r in results {
        let mut seen = HashSet::new();
        for x in r {
            if !seen.insert(*x) {
                return Err(format!("element {x} twice in one result"));
            }
            *cover.entry(*x).or_default() += 1;
        }
        // arrival order inside a result
        let pos: Vec<usize> = r.iter().filter_map(|x| arrivals.iter().position(|a| a == x)).collect();
        if pos.windows(2).any(|w| w[0] > w[1]) {
            return Err(format!("result {r:?} does not keep arrival order"));
        }
    }
    for a in arrivals {
        let c = cover.get(a).copied().unwrap_or(0);
        if !(1..=max_cover).contains(&c) {
            return Err(format!("element {a} is covered by {c} results, expected 1..={max_cover}"));
        }
    }
    if cover.len() != arrivals.len() {
        return Err("results contain elements that never arrived".into());
    }
    Ok(())
}

fn c14_direct(args: &Args, report: &mut Report, rng: &mut Rng) {
    let cases = if args.thorough { 260 } else { 26 };
    let mut classes: BTreeMap<&'static str, u64> = BTreeMap::new();
    let mut id = 0u64;
    for _ in 0..cases {
        let unit = Duration::from_micros(rng.below(6000) + 300);
        let kind = rng.below(3);
        let n = rng.usize(0, 40);
        let iterations = rng.usize(1, 3);
        let slide_div = rng.usize(2, 4) as u32;
        let mut all_err = None;
        let mut closed_by_pause = 0u64;
        let mut closed_by_end = 0u64;
        let mut results_n = 0usize;
        macro_rules! drive {
            ($mgr:expr, $check:expr) => {{
                let mut mgr = $mgr;
                for _ in 0..iterations {
                    let mut arrivals = Vec::new();
                    let mut results: Vec<Vec<u64>> = Vec::new();
                    for _ in 0..n {
                        pause(rng, unit, &mut classes);
                        id += 1;
                        arrivals.push(id);
                        for r in mgr.process(StreamElement::Item(id)) {
                            results.push(r.unwrap_item());
                            closed_by_pause += 1;
                        }
                        if rng.chance(1, 6) {
                            // watermarks and batch flushes may close windows but never add elements
                            for r in mgr.process(StreamElement::FlushBatch) {
                                results.push(r.unwrap_item());
                                closed_by_pause += 1;
                            }
                        }
                    }
                    for r in mgr.process(StreamElement::FlushAndRestart) {
                        results.push(r.unwrap_item());
                        closed_by_end += 1;
                    }
                    results_n += results.len();
                    let chk: Result<(), String> = $check(&results, &arrivals);
                    if let Err(e) = chk {
                        all_err = Some(format!("{e} (arrivals {arrivals:?}, results {results:?})"));
                    }
                }
                // nothing may be left after the last iteration
                if mgr.process(StreamElement::Terminate).into_iter().next().is_some() {
                    all_err = Some("a window was still pending after the end of the iteration".into());
                }
            }};
        }
        let name = match kind {
            0 => {
                drive!(ProcessingTimeWindow::tumbling(unit).build(Seq::default()), |r: &Vec<Vec<u64>>, a: &Vec<u64>| check_partition(r, a));
                "processing-time tumbling"
            }
            1 => {
                drive!(ProcessingTimeWindow::sliding(unit, unit / slide_div).build(Seq::default()), |r: &Vec<Vec<u64>>, a: &Vec<u64>| check_cover(r, a, slide_div as usize + 1));
                "processing-time sliding"
            }
            _ => {
                drive!(SessionWindow::new(unit).build(Seq::default()), |r: &Vec<Vec<u64>>, a: &Vec<u64>| check_partition(r, a));
                "session"
            }
        };
        let h = mix(id, hash_str(name) ^ unit.as_micros() as u64);
        let detail = |e: Option<String>| json!({"engine":"winmon.wallclock.direct","kind":name,"unit_us":unit.as_micros() as u64,"elements_per_iteration":n,"iterations":iterations,"error":e});
        report.count("wallclock_direct_cases", 1);
        report.count("windows_closed_by_a_pause", closed_by_pause);
        report.count("windows_closed_by_the_end_of_the_iteration", closed_by_end);
        report.seen("wallclock_kinds", name);
        match all_err {
            None => report.case(Verdict::Held, (results_n >= 2).then_some(h), || detail(None)),
            Some(e) => report.case(Verdict::Violated, Some(h), || detail(Some(e))),
        }
    }
    for (k, v) in classes {
        report.count(&format!("pause_class[{k}]"), v);
    }
}

fn c14_e2e(args: &Args, report: &mut Report, rng: &mut Rng) {
    let cases = if args.thorough { 60 } else { 6 };
    for case in 0..cases {
        let unit = Duration::from_millis(rng.below(15) + 2);
        let kind = rng.below(3);
        let keys = rng.below(6) + 1;
        let n = rng.usize(1, 80);
        let layout = rng.pick(&[Layout::Local(1), Layout::Local(3), Layout::Local(4), Layout::Remote(vec![2, 1])]).clone();
        let input: Vec<(u64, u64)> = (0..n as u64).map(|i| (rng.below(keys), i + 1)).collect();
        let pauses: Vec<u64> = (0..n).map(|_| match rng.below(8) { 0 | 1 | 2 | 3 => 0, 4 => unit.as_micros() as u64 / 2, 5 => unit.as_micros() as u64, 6 => unit.as_micros() as u64 + 300, _ => unit.as_micros() as u64 * 3 }).collect();
        let (in2, p2) = (input.clone(), pauses.clone());
        let res = run_job(
            &layout,
            RunOpts::default(),
            move |ctx, _| {
                let (tx, src) = ChannelSource::new(4);
                let (data, ps) = (in2.clone(), p2.clone());
                let feeder = std::thread::spawn(move || {
                    for (x, p) in data.into_iter().zip(ps) {
                        if p > 0 {
                            std::thread::sleep(Duration::from_micros(p));
                        }
                        if tx.send(x).is_err() {
                            break;
                        }
                    }
                });
                let s = ctx.stream(src).batch_mode(BatchMode::adaptive(8, Duration::from_millis(1))).group_by(|x: &(u64, u64)| x.0).map(|(_, x)| x.1);
                let out = match kind {
                    0 => s.window(ProcessingTimeWindow::tumbling(unit)).fold(Vec::new(), |a: &mut Vec<u64>, x| a.push(x)).collect_vec(),
                    1 => s.window(ProcessingTimeWindow::sliding(unit, unit / 2)).fold(Vec::new(), |a: &mut Vec<u64>, x| a.push(x)).collect_vec(),
                    _ => s.window(SessionWindow::new(unit)).fold(Vec::new(), |a: &mut Vec<u64>, x| a.push(x)).collect_vec(),
                };
                (out, feeder)
            },
            |(o, f), _| {
                let _ = f.join();
                o.get()
            },
        );
        let name = ["processing-time tumbling", "processing-time sliding", "session"][kind as usize];
        let h = mix(hash_str(&format!("{input:?}")), hash_str(name) ^ hash_str(&layout.name()));
        let detail = |e: Option<String>| json!({"engine":"winmon.wallclock.e2e","case":case,"kind":name,"unit_ms":unit.as_millis() as u64,"keys":keys,"elements":n,"layout":layout.name(),"error":e});
        if !res.all_ok() {
            report.case(Verdict::Inconclusive, None, || detail(Some(format!("job failed: {:?} {:?}", res.end, res.panic_messages()))));
            continue;
        }
        let results: Vec<(u64, Vec<u64>)> = res.hosts.iter().flatten().filter_map(|h| match h { HostOutcome::Ok(Some(v)) => Some(v.clone()), _ => None }).flatten().collect();
        let mut err = None;
        for k in 0..keys {
            let arrivals: Vec<u64> = input.iter().filter(|x| x.0 == k).map(|x| x.1).collect();
            let rs: Vec<Vec<u64>> = results.iter().filter(|r| r.0 == k).map(|r| r.1.clone()).collect();
            let r = if kind == 1 { check_cover(&rs, &arrivals, 3) } else { check_partition(&rs, &arrivals) };
            if let Err(e) = r {
                err = Some(format!("key {k}: {e}"));
            }
        }
        report.count("wallclock_e2e_jobs", 1);
        report.count("wallclock_e2e_results", results.len() as u64);
        match err {
            None => report.case(Verdict::Held, (results.len() >= 2).then_some(h), || detail(None)),
            Some(e) => report.case(Verdict::Violated, Some(h), || detail(Some(e))),
        }
    }
}

pub fn run_c14(args: &Args, report: &mut Report) {
    let mut rng = Rng::new(args.seed).fork(0xC14).fork(args.shard);
    let sub = args.sub.as_deref();
    if sub.is_none() || sub == Some("direct") {
        c14_direct(args, report, &mut rng);
    }
    if sub.is_none() || sub == Some("e2e") {
        c14_e2e(args, report, &mut rng);
    }
}
