//! C20 — fail-stop: a panicking user function is never masked by a partial result.
//!
//! Crash points are enumerated: for each acyclic program (random programs of `jobgen` without
//! loops) and configuration, a clean run first records how many elements every (operator,
//! replica) forwards; then, for operator positions spread over the program, replicas {first, last}
//! and element positions {first, middle, last, end-of-iteration marker}, the job is re-run with a
//! fault injector that panics right before that element is forwarded.
//!
//! Oracle: `execute_blocking` fails on every host that runs the failed replica or a replica
//! downstream of it (closure computed from the hooked execution-graph dump); no sink handle holds
//! a value afterwards on any host; channel sinks never deliver the element that was not
//! forwarded and disconnect; all workers and network threads end (a quiescence certificate makes
//! "blocked for ever" a violation, a plain timeout is inconclusive).

use std::collections::{BTreeMap, BTreeSet, HashMap};
use std::sync::atomic::Ordering;
use std::sync::{Arc, Mutex};

use renoir::StreamContext;
use serde_json::json;

use crate::jobgen::build::{build_program, finish_sinks, BuildCtx, FaultSpec, SinkHandle};
use crate::jobgen::gen::{gen_program, random_batch, Focus, GenCfg, Generated};
use crate::jobgen::types::*;
use crate::obs::{c3, C3};
use crate::probe::{TraceSink, K_ITEM, K_TS};
use crate::report::{Report, Verdict, RESUME_FROM};
use crate::rng::{hash_str, mix, Rng};
use crate::run::{census_json, configs, run_job, HostOutcome, JobEnd, Layout, RunOpts};
use crate::Args;

fn fault_layouts(rng: &mut Rng) -> Layout {
    match rng.below(7) {
        0 => Layout::Local(1),
        1 => Layout::Local(2),
        2 => Layout::Local(3),
        3 => Layout::Local(4),
        4 => Layout::Remote(vec![2, 2]),
        5 => Layout::Remote(vec![1, 2, 1]),
        _ => Layout::Remote(vec![1, 1]),
    }
}

/// Downstream closure of a replica in the dumped execution graph (including itself).
fn downstream_hosts(p: &Program, layout: &Layout, failed: C3) -> Option<BTreeSet<u64>> {
    let cfg = configs(layout).into_iter().next()?;
    let cx = BuildCtx { traces: TraceSink::new(), for_each: Default::default(), probes: false, fault: None, handles: None };
    let dump = std::panic::catch_unwind(std::panic::AssertUnwindSafe(|| {
        let ctx = StreamContext::new(cfg);
        let _ = build_program(&ctx, p, &cx);
        ctx.verif_execution_graph()
    }))
    .ok()?;
    let mut next: HashMap<C3, Vec<C3>> = HashMap::new();
    for (f, t, _, _) in &dump.links {
        next.entry(c3(*f)).or_default().push(c3(*t));
    }
    let mut seen: BTreeSet<C3> = BTreeSet::new();
    let mut stack = vec![failed];
    while let Some(c) = stack.pop() {
        if seen.insert(c) {
            for n in next.get(&c).into_iter().flatten() {
                stack.push(*n);
            }
        }
    }
    Some(seen.into_iter().map(|c| c.1).collect())
}

struct CrashPoint {
    probe: u32,
    label: String,
    gid: u64,
    at: usize,
    class: &'static str,
}

pub fn run(args: &Args, report: &mut Report) {
    let rng = Rng::new(args.seed).fork(0xC20).fork(args.shard);
    let programs = if args.thorough { 40 } else { 5 };
    let max_points = if args.thorough { 30 } else { 10 };
    let cfg = GenCfg { focus: Focus::All, max_input: 300, loops: false, max_steps: 7 };
    let mut case_no = 0u64;
    for pi in 0..programs {
        let mut crng = rng.fork(pi);
        let g: Generated = gen_program(&mut crng, &cfg);
        let layout = fault_layouts(&mut crng);
        let batch = random_batch(&mut crng);
        let mut p = g.program.clone();
        p.batch = batch;
        // clean run: element counts per (probe, replica)
        let clean = crate::engines::jobgen::run_program(&g, batch, &layout, crate::obs::Policy::none(), false);
        if !clean.panics.is_empty() || !clean.findings.is_empty() {
            report.count("programs_skipped_clean_run_not_clean", 1);
            continue;
        }
        // re-run with traces to get counts (run_program consumed them): do a light run
        let traces = TraceSink::new();
        let for_each: Arc<Mutex<HashMap<Var, Vec<Rec>>>> = Default::default();
        let cx = BuildCtx { traces: traces.clone(), for_each, probes: true, fault: None, handles: None };
        let p2 = p.clone();
        let res = run_job(&layout, RunOpts::default(), |ctx, _| build_program(ctx, &p2, &cx), |h, _| finish_sinks(h));
        if !res.all_ok() {
            continue;
        }
        let mut counts: BTreeMap<(u32, String), BTreeMap<u64, usize>> = BTreeMap::new();
        for t in traces.take() {
            if t.probe & crate::jobgen::build::RAW_FLAG != 0 {
                continue;
            }
            let n = t.evs.iter().filter(|e| e.kind == K_ITEM || e.kind == K_TS).count();
            counts.entry((t.probe, t.label.clone())).or_default().insert(t.ctx.global_id, n);
        }
        let (expect, _) = crate::jobgen::refsem::eval_program(&p);
        // enumerate crash points
        let mut points: Vec<CrashPoint> = Vec::new();
        for ((probe, label), per_replica) in &counts {
            let gids: Vec<u64> = per_replica.keys().cloned().collect();
            let mut chosen = vec![gids[0]];
            if gids.len() > 1 {
                chosen.push(*gids.last().unwrap());
            }
            for gid in chosen {
                let n = per_replica[&gid];
                if n >= 1 {
                    points.push(CrashPoint { probe: *probe, label: label.clone(), gid, at: 1, class: "first element" });
                }
                if n >= 3 {
                    points.push(CrashPoint { probe: *probe, label: label.clone(), gid, at: n / 2 + 1, class: "middle element" });
                }
                if n >= 2 {
                    points.push(CrashPoint { probe: *probe, label: label.clone(), gid, at: n, class: "last element" });
                }
                points.push(CrashPoint { probe: *probe, label: label.clone(), gid, at: 0, class: "end-of-iteration marker (everything already forwarded)" });
            }
        }
        crng.shuffle(&mut points);
        points.truncate(max_points);
        report.count("programs", 1);
        for cp in points {
            case_no += 1;
            if case_no <= args.skip {
                continue;
            }
            let fired: Arc<Mutex<Option<(C3, u64)>>> = Default::default();
            let spec = FaultSpec { probe: cp.probe, gid: cp.gid, at: cp.at, fired: fired.clone() };
            let handles: Arc<Mutex<Vec<(usize, Var, SinkKind, SinkHandle)>>> = Default::default();
            let for_each: Arc<Mutex<HashMap<Var, Vec<Rec>>>> = Default::default();
            let cx = BuildCtx { traces: TraceSink::new(), for_each: for_each.clone(), probes: false, fault: Some(spec), handles: Some(handles.clone()) };
            let witness = json!({"engine":"faultmon","case":case_no,"shard":args.shard,"seed":args.seed,"layout":layout.name(),"batch":format!("{batch:?}"),
                "crash_point":{"after_operator":cp.label,"probe":cp.probe,"replica_global_id":cp.gid,"element":cp.class,"index":cp.at},
                "program":crate::engines::jobgen::program_json(&g)});
            {
                let w = witness.clone();
                RESUME_FROM.store(case_no, Ordering::SeqCst);
                crate::run::on_no_return(move |end, census, r| {
                    let mut d = w.clone();
                    d["census"] = census_json(census);
                    if *end == JobEnd::Deadlocked {
                        d["error"] = json!("after the injected panic the other workers did not unwind: quiescence certificate (every live engine thread parked for ever)");
                        r.case(Verdict::Violated, None, || d);
                    } else {
                        d["error"] = json!(format!("watchdog fired without a quiescence certificate ({end:?})"));
                        r.case(Verdict::Inconclusive, None, || d);
                    }
                });
            }
            let p3 = p.clone();
            let hs = handles.clone();
            let res = run_job(
                &layout,
                RunOpts { watchdog: std::time::Duration::from_secs(90), ..Default::default() },
                move |ctx, h| {
                    // the handles are parked outside: execute_blocking is expected to panic
                    let sinks = build_program(ctx, &p3, &cx);
                    hs.lock().unwrap().extend(sinks.into_iter().map(|(v, k, s)| (h, v, k, s)));
                },
                |_, _| (),
            );
            crate::run::clear_no_return();
            let hsh = mix(hash_str(&format!("{:?}", p.stmts)), mix(cp.probe as u64 * 1000 + cp.gid, cp.at as u64) ^ hash_str(&layout.name()));
            report.count("crash_points", 1);
            report.seen("crash_point_classes", cp.class);
            report.seen("operators_crashed_after", cp.label.clone());
            report.seen("layouts", layout.name());
            let Some((failed, lost_id)) = *fired.lock().unwrap() else {
                // the fault did not fire (e.g. the replica count differs between runs of a
                // nondeterministically routed program): nothing to conclude
                report.count("crash_points_not_reached", 1);
                report.case(Verdict::Inconclusive, None, || witness.clone());
                continue;
            };
            let mut errs = Vec::new();
            // 1. who must fail
            let must_fail = downstream_hosts(&p, &layout, failed);
            let panicked: BTreeSet<u64> = res.hosts.iter().enumerate().filter(|(_, h)| matches!(h, Some(HostOutcome::Panicked(_)))).map(|(i, _)| i as u64).collect();
            match &must_fail {
                Some(mf) => {
                    report.max("downstream_closure_hosts", mf.len() as u64);
                    for h in mf {
                        if !panicked.contains(h) {
                            errs.push(format!("execute_blocking returned normally on host {h}, which runs the failed replica {failed:?} or a replica downstream of it"));
                        }
                    }
                }
                None => errs.push("could not compute the downstream closure".into()),
            }
            // 2. no sink publishes anything
            let results = finish_sinks(std::mem::take(&mut *handles.lock().unwrap()).into_iter().map(|(_, v, k, s)| (v, k, s)).collect());
            let downstream_sinks = true; // every sink of these programs is downstream of some source; checked per sink below
            let _ = downstream_sinks;
            for r in &results {
                match r.kind {
                    SinkKind::CollectVec | SinkKind::Collect | SinkKind::CollectVecAll => {
                        if let Some(d) = &r.data {
                            // a sink that is not downstream of the failed replica may legitimately complete
                            if sink_is_downstream(&p, r.var, cp.probe) {
                                errs.push(format!("sink of stream {} published a result with {} elements although a replica upstream of it panicked", r.var, d.len()));
                            }
                        }
                    }
                    SinkKind::CollectCount => {
                        if let Some(c) = r.count {
                            if sink_is_downstream(&p, r.var, cp.probe) {
                                errs.push(format!("collect_count of stream {} published {c} although a replica upstream of it panicked", r.var));
                            }
                        }
                    }
                    SinkKind::CollectChannel => {
                        if sink_is_downstream(&p, r.var, cp.probe) {
                            if r.channel_closed == Some(false) {
                                errs.push(format!("collect_channel of stream {} is still connected after the failure", r.var));
                            }
                            // (only meaningful when that id is unique among the elements of the stream)
                            let unique = expect.per_probe.get(&cp.probe).map_or(false, |its| its.iter().flatten().filter(|x| x.id == lost_id).count() == 1);
                            if cp.at != 0 && unique && identity_path(&p, cp.probe, r.var) && r.data.as_ref().map_or(false, |d| d.iter().any(|x| x.id == lost_id)) {
                                errs.push(format!("collect_channel of stream {} delivered element {lost_id}, which the panicking function never forwarded", r.var));
                            }
                        }
                    }
                    SinkKind::ForEach => {}
                }
            }
            // "all other workers unwind instead of blocking for ever": workers only. A network
            // thread (e.g. an acceptor still waiting for a host that already failed) is not a
            // worker, and in a real deployment it dies with its host's process, whose main thread
            // has already failed; it is counted as evidence, not as a violation.
            let workers: Vec<_> = res.leaked_threads.iter().filter(|t| t.coord.is_some()).cloned().collect();
            if !res.leaked_threads.is_empty() {
                if res.leak_certified && !workers.is_empty() {
                    errs.push(format!("{} workers are parked for ever after the failure (all remaining threads parked, no engine event across 8 snapshots): {}", workers.len(), census_json(&workers)));
                } else if res.leak_certified {
                    report.count("jobs_leaving_only_network_threads_parked_after_the_failure", 1);
                } else {
                    report.count("jobs_with_threads_still_unwinding_after_90s", 1);
                }
            }
            if errs.is_empty() {
                report.case(Verdict::Held, Some(hsh), || witness.clone());
            } else {
                let mut d = witness.clone();
                d["error"] = json!(errs.join(" || "));
                d["failed_replica"] = json!(format!("{failed:?}"));
                d["hosts_that_failed"] = json!(panicked);
                report.case(Verdict::Violated, Some(hsh), || d);
            }
        }
    }
}

/// Is the sink of stream `sink_var` fed (transitively) by stream `var`?
fn sink_is_downstream(p: &Program, sink_var: Var, var: u32) -> bool {
    // data-flow closure over the statements
    let mut reach: BTreeSet<u32> = BTreeSet::new();
    reach.insert(var);
    for st in &p.stmts {
        match st {
            Stmt::Op { inp, out, .. } => {
                if reach.contains(inp) {
                    reach.insert(*out);
                }
            }
            Stmt::Join { a, b, out, .. } | Stmt::Merge { a, b, out } | Stmt::Zip { a, b, out, .. } => {
                if reach.contains(a) || reach.contains(b) {
                    reach.insert(*out);
                }
            }
            Stmt::Split { inp, outs } | Stmt::Route { inp, outs, .. } => {
                if reach.contains(inp) {
                    reach.extend(outs.iter().cloned());
                }
            }
            Stmt::Iterate { inp, state_out, data_out, .. } => {
                if reach.contains(inp) {
                    reach.insert(*state_out);
                    reach.insert(*data_out);
                }
            }
            _ => {}
        }
    }
    reach.contains(&sink_var)
}

/// Are all operators between `var` and the sink id-preserving (so that a lost element can be
/// recognised by its id at the sink)?
fn identity_path(p: &Program, var: u32, sink_var: Var) -> bool {
    let mut cur = var;
    for st in &p.stmts {
        if let Stmt::Op { inp, out, op } = st {
            if *inp == cur {
                match op {
                    UOp::Shuffle | UOp::Replicate(_) | UOp::Filter { .. } | UOp::ReKey { .. } | UOp::Batch(_) => cur = *out,
                    _ => return false,
                }
            }
        }
    }
    cur == sink_var
}
