//! C04 — every finite job terminates and every sink is completed exactly once.
//!
//! Restatement for finite runs: a job either *completes* (execute_blocking returned on every
//! host, every worker and network thread ended, every sink handle yields its result on exactly
//! one host) or it is *deadlocked*: the quiescence certificate of `run.rs` (not all workers ended,
//! every live engine thread parked in a blocking primitive, no engine event across three
//! snapshots). A watchdog expiry without certificate is inconclusive, never a violation.
//!
//! Workloads: deadlock-prone shapes (inputs far above the channel capacity with tiny batches,
//! diamonds with one slow branch into zip / join / merge, loops with shuffles / side inputs /
//! nesting, empty inputs, one-core hosts) and the random programs of `jobgen`.

use std::sync::atomic::{AtomicU64, Ordering};
use std::sync::Arc;
use std::time::Duration;

use renoir::operator::StreamElement;
use renoir::prelude::*;
use renoir::Replication;
use serde_json::json;

use crate::jobgen::gen::{gen_program, has_iterate, random_batch, Focus, GenCfg};
use crate::jobgen::types::BatchSpec;
use crate::obs::{self, Policy, ThreadSnap};
use crate::probe::{BoxExt, Probe, ProbeCtx};
use crate::report::{Report, Verdict, RESUME_FROM};
use crate::rng::{hash_str, mix, Rng};
use crate::run::{census_json, run_job, HostOutcome, JobEnd, Layout, RunOpts};
use crate::Args;

/// Learns the block id of the operator it is attached to (even if the job never ends).
struct BlockIdProbe(Arc<AtomicU64>);
impl<T> Probe<T> for BlockIdProbe {
    fn fork(&self) -> Box<dyn Probe<T>> {
        Box::new(BlockIdProbe(self.0.clone()))
    }
    fn setup(&mut self, ctx: ProbeCtx) {
        self.0.store(ctx.coord.0, Ordering::SeqCst);
    }
    fn see(&mut self, _: &StreamElement<T>) {}
}

/// Finding F8: the wait-for cycle goes through the feedback edge of an `iterate`: a replica of
/// the Iterate block is itself blocked in a send while some thread is blocked sending into an
/// endpoint owned by a replica of the Iterate block.
pub fn is_f8(census: &[ThreadSnap], iterate_block: u64) -> bool {
    let iterate_blocked_in_send = census.iter().any(|t| t.state == obs::ST_SEND && t.coord.map_or(false, |c| c.0 == iterate_block));
    let blocked_into_iterate = census.iter().any(|t| t.state == obs::ST_SEND && t.target.map_or(false, |(e, _)| e.0 .0 == iterate_block));
    iterate_blocked_in_send && blocked_into_iterate
}

#[derive(Clone, Copy, Debug, PartialEq, Eq)]
enum Shape {
    ShuffleChain,
    DiamondZip,
    DiamondJoin,
    DiamondMerge,
    ReplayShuffle,
    ReplayNested,
    ReplaySide,
    IterateForward,
    IterateShuffleSmall,
    GroupByFold,
    MultiSink,
    /// forward connection to a block with fewer replicas (Limited(k)) in multi-host layouts where
    /// several replicas of the narrowed block share a host and are fed by different remote hosts
    Narrow(u64),
}

const SHAPES: [Shape; 13] = [
    Shape::Narrow(2),
    Shape::Narrow(3),
    Shape::ShuffleChain,
    Shape::DiamondZip,
    Shape::DiamondJoin,
    Shape::DiamondMerge,
    Shape::ReplayShuffle,
    Shape::ReplayNested,
    Shape::ReplaySide,
    Shape::IterateForward,
    Shape::IterateShuffleSmall,
    Shape::GroupByFold,
    Shape::MultiSink,
];

fn tiny_batch(rng: &mut Rng) -> BatchMode {
    match rng.below(5) {
        0 | 1 => BatchMode::single(),
        2 => BatchMode::fixed(1),
        3 => BatchMode::fixed(rng.usize(2, 4)),
        _ => BatchMode::adaptive(rng.usize(1, 8), Duration::from_millis(1)),
    }
}

fn c04_layout(rng: &mut Rng) -> Layout {
    match rng.below(10) {
        0 => Layout::Local(1),
        1 => Layout::Local(2),
        2 => Layout::Local(4),
        3 => Layout::Local(8),
        4 => Layout::Remote(vec![1, 1, 1]),
        5 => Layout::Remote(vec![2, 2]),
        6 => Layout::Remote(vec![1, 3, 1]),
        7 => Layout::Remote(vec![4, 1]),
        8 => Layout::Remote(vec![1, 1]),
        _ => Layout::Remote(vec![2, 1, 2]),
    }
}

fn slow_policy(rng: &mut Rng) -> Policy {
    let seed = rng.next_u64();
    match rng.below(6) {
        0 | 1 => Policy::none(),
        2 => Policy { name: "slow-receiver".into(), slow_recv_blocks: vec![(rng.below(6), 150)], seed, ..Default::default() },
        3 => Policy { name: "slow-network".into(), slow_net_us: 200, seed, ..Default::default() },
        4 => Policy { name: "slow-sender".into(), slow_send_blocks: vec![(rng.below(6), 100)], seed, ..Default::default() },
        _ => Policy { name: "jitter".into(), jitter_permille: 50, jitter_max_us: 300, seed, ..Default::default() },
    }
}

/// Builds the shape; returns the expected number of elements at the (count) sink.
fn build_shape(ctx: &StreamContext, shape: Shape, n: u64, batch: BatchMode, iter_block: &Arc<AtomicU64>) -> (renoir::operator::sink::StreamOutput<usize>, Option<renoir::operator::sink::StreamOutput<usize>>) {
    let src = |ctx: &StreamContext| ctx.stream_par_iter(0..n).batch_mode(batch);
    match shape {
        Shape::ShuffleChain => (src(ctx).shuffle().map(|x| x + 1).shuffle().group_by(|x| x % 11).drop_key().shuffle().collect_count(), None),
        Shape::DiamondZip => {
            let mut p = src(ctx).shuffle().split(2).into_iter();
            let a = p.next().unwrap().map(|x| {
                if x % 64 == 0 {
                    std::thread::sleep(Duration::from_micros(300));
                }
                x
            });
            let b = p.next().unwrap().shuffle();
            (a.shuffle().zip(b).collect_count(), None)
        }
        Shape::DiamondJoin => {
            let mut p = src(ctx).split(2).into_iter();
            let a = p.next().unwrap().map(|x| {
                if x % 64 == 0 {
                    std::thread::sleep(Duration::from_micros(300));
                }
                x
            });
            let b = p.next().unwrap().shuffle();
            (a.join(b, |x| *x, |y| *y).unkey().collect_count(), None)
        }
        Shape::DiamondMerge => {
            let mut p = src(ctx).split(3).into_iter();
            let a = p.next().unwrap().shuffle();
            let b = p.next().unwrap().group_by(|x| x % 5).drop_key();
            let c = p.next().unwrap().shuffle().filter(|x| x % 2 == 0);
            (a.merge(b).merge(c).collect_count(), None)
        }
        Shape::ReplayShuffle => (
            src(ctx)
                .shuffle()
                .replay(3, 0u64, |s, _| s.shuffle().map(|x| x + 1).group_by(|x| x % 7).drop_key(), |d: &mut u64, x| *d = d.wrapping_add(x), |a, d| *a = a.wrapping_add(d), |_| true)
                .collect_count(),
            None,
        ),
        Shape::ReplayNested => (
            src(ctx)
                .shuffle()
                .replay(
                    2,
                    0u64,
                    |s, _| {
                        s.shuffle()
                            .replay(2, 0u64, |s, _| s.shuffle().map(|x| x + 1), |d: &mut u64, x| *d = d.wrapping_add(x), |a, d| *a = a.wrapping_add(d), |_| true)
                    },
                    |d: &mut u64, x| *d = d.wrapping_add(x),
                    |a, d| *a = a.wrapping_add(d),
                    |_| true,
                )
                .collect_count(),
            None,
        ),
        Shape::ReplaySide => {
            let side = ctx.stream_par_iter(0..(n / 4).max(1)).batch_mode(batch).shuffle();
            (
                src(ctx)
                    .shuffle()
                    .replay(3, 0u64, move |s, _| s.merge(side).shuffle(), |d: &mut u64, x| *d = d.wrapping_add(x), |a, d| *a = a.wrapping_add(d), |_| true)
                    .collect_count(),
                None,
            )
        }
        Shape::IterateForward => {
            let ib = iter_block.clone();
            let (st, out) = src(ctx).shuffle().iterate(
                3,
                0u64,
                move |s, _| s.probed(Box::new(BlockIdProbe(ib))).map(|x| x + 1),
                |d: &mut u64, x| *d = d.wrapping_add(x),
                |a, d| *a = a.wrapping_add(d),
                |_| true,
            );
            (out.collect_count(), Some(st.collect_count()))
        }
        Shape::IterateShuffleSmall => {
            let ib = iter_block.clone();
            let (st, out) = src(ctx).shuffle().iterate(
                3,
                0u64,
                move |s, _| s.probed(Box::new(BlockIdProbe(ib))).shuffle().map(|x| x + 1),
                |d: &mut u64, x| *d = d.wrapping_add(x),
                |a, d| *a = a.wrapping_add(d),
                |_| true,
            );
            (out.collect_count(), Some(st.collect_count()))
        }
        Shape::GroupByFold => (src(ctx).group_by(|x| x % 13).fold(0u64, |a, x| *a += x).unkey().shuffle().collect_count(), None),
        Shape::Narrow(k) => (src(ctx).map(|x| x + 1).replication(Replication::Limited(k)).map(|x| x).shuffle().collect_count(), None),
        Shape::MultiSink => {
            let mut p = src(ctx).shuffle().split(2).into_iter();
            let a = p.next().unwrap().replication(Replication::One).collect_count();
            let b = p.next().unwrap().shuffle().collect_count();
            (a, Some(b))
        }
    }
}

fn expected(shape: Shape, n: u64) -> (usize, Option<usize>) {
    let n = n as usize;
    match shape {
        Shape::ShuffleChain | Shape::DiamondZip | Shape::DiamondJoin | Shape::Narrow(_) => (n, None),
        Shape::DiamondMerge => (n + n + (n + 1) / 2, None),
        Shape::ReplayShuffle | Shape::ReplayNested | Shape::ReplaySide => (1, None),
        Shape::IterateForward | Shape::IterateShuffleSmall => (n, Some(1)),
        Shape::GroupByFold => (n.min(13), None),
        Shape::MultiSink => (n, Some(n)),
    }
}

static PINNED_SLOW_BLOCK: AtomicU64 = AtomicU64::new(u64::MAX);

fn run_shape(args: &Args, report: &mut Report, rng: &mut Rng, case: u64, forced: Option<(Shape, u64, BatchMode, Layout)>) {
    run_shape_ext(args, report, rng, case, forced, true)
}

fn run_shape_ext(args: &Args, report: &mut Report, rng: &mut Rng, case: u64, forced: Option<(Shape, u64, BatchMode, Layout)>, forced_is_pinned: bool) {
    let is_forced = forced.is_some();
    let pinned = is_forced && forced_is_pinned;
    let (shape, n, batch, layout) = forced.unwrap_or_else(|| {
        let shape = *rng.pick(&SHAPES);
        let big = if args.thorough { 30_000 } else { 6_000 };
        let n = match (shape, rng.below(5)) {
            // finding F8: iterate with a shuffle in the body deadlocks once a round exceeds the
            // buffering of the feedback cycle; the unpinned workload stays far below that
            (Shape::IterateShuffleSmall, _) => rng.below(12),
            (_, 0) => 0,
            (_, 1) => rng.below(20),
            (Shape::DiamondJoin, _) => rng.below(big / 4) + 100,
            _ => rng.below(big) + 300,
        };
        let layout = match shape {
            Shape::Narrow(_) => rng.pick(&[Layout::Remote(vec![2, 1, 1]), Layout::Remote(vec![2, 2, 2, 2]), Layout::Remote(vec![3, 1, 2]), Layout::Remote(vec![2, 2]), Layout::Local(5)]).clone(),
            _ => c04_layout(rng),
        };
        (shape, n, tiny_batch(rng), layout)
    });
    let policy = if is_forced && !pinned {
        Policy::none()
    } else if pinned {
        match PINNED_SLOW_BLOCK.load(Ordering::SeqCst) {
            u64::MAX => Policy::none(),
            b => Policy { name: format!("slow-receiver-block-{b}"), slow_recv_blocks: vec![(b, 200)], ..Default::default() },
        }
    } else {
        slow_policy(rng)
    };
    let pname = policy.name.clone();
    let iter_block = Arc::new(AtomicU64::new(u64::MAX));
    let witness = json!({"engine":"termination.shapes","case":case,"shard":args.shard,"seed":args.seed,"shape":format!("{shape:?}"),"elements":n,
        "batch":format!("{batch:?}"),"layout":layout.name(),"policy":pname,"pinned_F8_probe":pinned});
    {
        let w = witness.clone();
        let ib = iter_block.clone();
        RESUME_FROM.store(case, Ordering::SeqCst);
        crate::run::on_no_return(move |end, census, r| {
            let mut d = w.clone();
            d["census"] = census_json(census);
            let blk = ib.load(Ordering::SeqCst);
            if *end == JobEnd::Deadlocked {
                // the listed finding is the pinned input (iterate with a shuffle in its body, 20 000
                // elements, single-element batches, local(2)); the same shape on any other input
                // is a violation
                if pinned && blk != u64::MAX && is_f8(census, blk) {
                    d["finding"] = json!("F8");
                    d["error"] = json!("quiescence certificate: cyclic wait through the feedback edge of iterate (known finding F8)");
                    r.case(Verdict::Known, None, || d);
                } else {
                    d["error"] = json!("quiescence certificate: every live engine thread is parked and no event occurred across three snapshots: the job will never terminate");
                    r.case(Verdict::Violated, None, || d);
                }
            } else {
                d["error"] = json!(format!("watchdog fired without a quiescence certificate ({end:?})"));
                r.case(Verdict::Inconclusive, None, || d);
            }
        });
    }
    let ib2 = iter_block.clone();
    let res = run_job(
        &layout,
        RunOpts { policy, watchdog: Duration::from_secs(240), ..Default::default() },
        move |ctx, _| build_shape(ctx, shape, n, batch, &ib2),
        |(a, b), _| (a.get(), b.map(|b| b.get())),
    );
    crate::run::clear_no_return();
    let h = mix(hash_str(&format!("{shape:?}{batch:?}")), mix(n, hash_str(&layout.name())));
    let ctr = &res.log.counters;
    report.count("shape_jobs", 1);
    report.count("sends", ctr.sends.load(Ordering::Relaxed));
    report.count("elements_sent", ctr.elems_sent.load(Ordering::Relaxed));
    report.seen("shapes", format!("{shape:?}"));
    report.seen("layouts", layout.name());
    report.max("elements_in_one_job", n);
    let mut errs = Vec::new();
    if res.any_panicked() {
        errs.push(format!("the job crashed: {:?}", res.panic_messages()));
    }
    if !res.leaked_threads.is_empty() && res.leak_certified {
        errs.push(format!("{} engine threads never end although execute_blocking returned on every host (all parked, no engine event across 8 snapshots): {}", res.leaked_threads.len(), census_json(&res.leaked_threads)));
    }
    let (wa, wb) = expected(shape, n);
    let firsts: Vec<usize> = res.hosts.iter().flatten().filter_map(|h| match h { HostOutcome::Ok((Some(a), _)) => Some(*a), _ => None }).collect();
    let seconds: Vec<usize> = res.hosts.iter().flatten().filter_map(|h| match h { HostOutcome::Ok((_, Some(Some(b)))) => Some(*b), _ => None }).collect();
    if !res.any_panicked() {
        // a count sink over an empty stream yields nothing at all
        if !(wa == 0 && firsts.is_empty()) && firsts != vec![wa] {
            errs.push(format!("the sink's handle yielded {firsts:?} over all hosts, expected exactly one result {wa}"));
        }
        if let Some(wb) = wb {
            if !(wb == 0 && seconds.is_empty()) && seconds != vec![wb] {
                errs.push(format!("the second sink's handle yielded {seconds:?} over all hosts, expected exactly one result {wb}"));
            }
        }
    }
    if errs.is_empty() {
        if pinned {
            // the pinned F8 input terminated: the finding did not reproduce in this run
            report.count("pinned_f8_terminated", 1);
        }
        report.case(Verdict::Held, (n > 200 || is_forced).then_some(h), || witness.clone());
    } else {
        let mut d = witness.clone();
        d["error"] = json!(errs.join(" || "));
        report.case(Verdict::Violated, Some(h), || d);
    }
}

fn run_random_programs(args: &Args, report: &mut Report, rng: &mut Rng, first_case: u64) -> u64 {
    let cases = if args.thorough { 60 } else { 6 };
    let cfg = GenCfg { focus: Focus::All, max_input: if args.thorough { 8000 } else { 2500 }, loops: true, max_steps: 9 };
    let mut case_no = first_case;
    for case in 0..cases {
        let mut crng = rng.fork(case);
        let g = gen_program(&mut crng, &cfg);
        for layout in crate::engines::jobgen::layouts_for(&mut crng, 3, false) {
            case_no += 1;
            if case_no <= args.skip {
                continue;
            }
            let mut batch = match crng.below(3) {
                0 => BatchSpec::Single,
                1 => BatchSpec::Fixed(crng.usize(1, 3)),
                _ => random_batch(&mut crng),
            };
            if has_iterate(&g.program) && matches!(batch, BatchSpec::Single | BatchSpec::Fixed(1..=7)) {
                batch = BatchSpec::Fixed(64);
            }
            let policy = slow_policy(&mut crng);
            let pname = policy.name.clone();
            let witness = json!({"engine":"termination.jobgen","case":case,"shard":args.shard,"seed":args.seed,"layout":layout.name(),"batch":format!("{batch:?}"),
                "policy":pname,"program":crate::engines::jobgen::program_json(&g)});
            {
                let w = witness.clone();
                RESUME_FROM.store(case_no, Ordering::SeqCst);
                crate::run::on_no_return(move |end, census, r| {
                    let mut d = w.clone();
                    d["census"] = census_json(census);
                    if *end == JobEnd::Deadlocked {
                        d["error"] = json!("quiescence certificate: every live engine thread is parked and no event occurred across three snapshots: the job will never terminate");
                        r.case(Verdict::Violated, None, || d);
                    } else {
                        d["error"] = json!(format!("watchdog fired without a quiescence certificate ({end:?})"));
                        r.case(Verdict::Inconclusive, None, || d);
                    }
                });
            }
            let out = crate::engines::jobgen::run_program(&g, batch, &layout, policy, false);
            crate::run::clear_no_return();
            let h = mix(hash_str(&format!("{:?}", g.program.stmts)), hash_str(&format!("{}{batch:?}", layout.name())));
            report.count("random_program_jobs", 1);
            report.count("sends", out.log.counters.sends.load(Ordering::Relaxed));
            let mut errs: Vec<String> = out.findings.iter().filter(|f| f.class == crate::jobgen::check::Class::Sink).map(|f| f.msg.clone()).collect();
            if out.leaked > 0 {
                errs.push(format!("{} engine threads never end although the job returned (all parked, no engine event across 8 snapshots)", out.leaked));
            }
            if !out.panics.is_empty() {
                let msg = out.panics.join(" | ");
                if msg.contains("parallelism of the 2 blocks") {
                    report.case(Verdict::Inconclusive, None, || witness.clone());
                    continue;
                }
                errs.push(format!("the job crashed: {msg}"));
            }
            if errs.is_empty() {
                report.case(Verdict::Held, Some(h), || witness.clone());
            } else {
                let mut d = witness.clone();
                d["error"] = json!(errs.join(" || "));
                report.case(Verdict::Violated, Some(h), || d);
            }
        }
    }
    case_no
}

/// C18, "the choice of batch mode never changes a job's result": loop shapes whose rounds carry
/// many messages per replica (but stay far below the volume of finding F8), each under every
/// batch mode; the sinks must deliver the same counts, and a job that never returns under one
/// mode is a violation (quiescence certificate).
pub fn run_c18_loops(args: &Args, report: &mut Report) {
    let mut rng = Rng::new(args.seed).fork(0xC18F).fork(args.shard);
    let cases = if args.thorough { 12 } else { 2 };
    let modes = [
        BatchMode::default(),
        BatchMode::single(),
        BatchMode::fixed(1),
        BatchMode::fixed(5),
        BatchMode::fixed(1024),
        BatchMode::adaptive(1, Duration::from_millis(50)),
        BatchMode::adaptive(1024, Duration::from_millis(2)),
    ];
    let mut case_no = 1000u64;
    for _ in 0..cases {
        let shape = *rng.pick(&[Shape::IterateShuffleSmall, Shape::IterateForward, Shape::ReplayShuffle, Shape::ReplaySide]);
        let n = 40 + rng.below(120);
        let layout = rng.pick(&[Layout::Local(1), Layout::Local(2), Layout::Remote(vec![1, 1])]).clone();
        for m in modes {
            case_no += 1;
            if case_no - 1000 <= args.skip {
                continue;
            }
            let mut r = rng.fork(case_no);
            run_shape_ext(args, report, &mut r, case_no, Some((shape, n, m, layout.clone())), false);
        }
    }
}

pub fn run(args: &Args, report: &mut Report) {
    if let Some(sub) = args.sub.as_deref() {
        // --sub f8:<n>:<p>  : run the pinned shape with n elements on local(p)
        if let Some(rest) = sub.strip_prefix("f8:") {
            let mut it = rest.split(':');
            let n: u64 = it.next().unwrap().parse().unwrap();
            let p: u64 = it.next().unwrap().parse().unwrap();
            if let Some(b) = it.next() {
                PINNED_SLOW_BLOCK.store(b.parse().unwrap(), Ordering::SeqCst);
            }
            let mut r3 = Rng::new(args.seed);
            run_shape(args, report, &mut r3, 1, Some((Shape::IterateShuffleSmall, n, BatchMode::single(), Layout::Local(p))));
            return;
        }
    }
    let mut rng = Rng::new(args.seed).fork(0xC04).fork(args.shard);
    let shapes = if args.thorough { 120 } else { 14 };
    let mut case_no = 0u64;
    for i in 0..shapes {
        case_no += 1;
        let mut crng = rng.fork(i);
        if case_no <= args.skip {
            continue;
        }
        run_shape(args, report, &mut crng, case_no, None);
    }
    let mut r2 = rng.fork(0xFFFF);
    case_no = run_random_programs(args, report, &mut r2, case_no);
    // pinned probe of finding F8 (last, on shard 0: a deadlocked job ends the shard process)
    case_no += 1;
    // (the deadlock is schedule dependent: the exact input is tried a few times; if it does not
    // show, the finding is reported as "listed, not encountered in this run")
    if args.shard == 0 && case_no > args.skip {
        let attempts = if args.thorough { 8 } else { 3 };
        for a in 0..attempts {
            let mut r3 = rng.fork(0xF8 + a);
            run_shape(args, report, &mut r3, case_no, Some((Shape::IterateShuffleSmall, 20_000, BatchMode::single(), Layout::Local(2))));
        }
    }
    let _ = &mut rng;
}
