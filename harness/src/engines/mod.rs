//! One module per engine; `dispatch` maps a property id to the workloads that decide it.

use crate::report::Report;
use crate::Args;

pub mod winmon_count;

pub fn dispatch(args: &Args, report: &mut Report) {
    match args.prop.as_str() {
        "C12" => winmon_count::run(args, report),
        other => {
            eprintln!("no engine for property {other}");
            std::process::exit(2);
        }
    }
}
