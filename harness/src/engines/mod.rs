//! One module per engine; `dispatch` maps a property id to the workloads that decide it.

use crate::report::Report;
use crate::Args;

pub mod faultmon;
pub mod graphdump;
pub mod jobgen;
pub mod latmon;
pub mod linkmon;
pub mod loopmon;
pub mod scripts;
pub mod srcmon;
pub mod termination;
pub mod winmon_count;
pub mod winmon_time;

pub fn dispatch(args: &Args, report: &mut Report) {
    match args.prop.as_str() {
        "C01" | "C09" => jobgen::run(args, report),
        "C05" => {
            if args.sub.is_none() || args.sub.as_deref() == Some("jobgen") {
                jobgen::run(args, report);
            }
            if args.sub.is_none() || args.sub.as_deref() == Some("timestamped") {
                scripts::run_c06(args, report);
            }
        }
        "C08" => {
            if args.sub.is_none() || args.sub.as_deref() == Some("jobgen") {
                jobgen::run(args, report);
            }
            if args.sub.is_none() || args.sub.as_deref() == Some("interval") {
                scripts::run_interval_join(args, report);
            }
        }
        "C07" => {
            if args.sub.is_none() || args.sub.as_deref() == Some("jobgen") {
                jobgen::run(args, report);
            }
            if args.sub.is_none() || args.sub.as_deref() == Some("timestamps") {
                scripts::run_c07_ts(args, report);
            }
        }
        "C16" => {
            if args.sub.is_none() || args.sub.as_deref() == Some("jobgen") {
                jobgen::run(args, report);
            }
            if args.sub.is_none() || args.sub.as_deref() == Some("reorder") {
                scripts::run_reorder(args, report);
            }
        }
        "C18" => {
            if args.sub.is_none() || args.sub.as_deref() == Some("latency") {
                latmon::run(args, report);
            }
            if args.sub.is_none() || args.sub.as_deref() == Some("batch_equiv") {
                jobgen::run(args, report);
            }
            if args.sub.is_none() || args.sub.as_deref() == Some("batch_loops") {
                termination::run_c18_loops(args, report);
            }
        }
        "C20" => faultmon::run(args, report),
        "C04" => termination::run(args, report),
        "C06" => scripts::run_c06(args, report),
        "C17" => scripts::run_c17(args, report),
        "C02" => linkmon::run_c02(args, report),
        "C03" => linkmon::run_c03(args, report),
        "C10" => loopmon::run_c10(args, report),
        "C11" => loopmon::run_c11(args, report),
        "C12" => winmon_count::run(args, report),
        "C13" => winmon_time::run_c13(args, report),
        "C14" => winmon_time::run_c14(args, report),
        "C15" => srcmon::run(args, report),
        "C19" => graphdump::run(args, report),
        other => {
            eprintln!("no engine for property {other}");
            std::process::exit(2);
        }
    }
}
