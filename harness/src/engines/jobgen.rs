//! Runner of the random-program differential engine. Serves C01, C05, C07, C08, C09, C16 (each
//! with its own generator focus and its own class of findings) and provides jobs to C04.

use std::collections::HashMap;
use std::sync::{Arc, Mutex};
use std::time::Duration;

use serde_json::{json, Value};

use crate::jobgen::build::{build_program, finish_sinks, BuildCtx, SinkResult};
use crate::jobgen::check::{check_job, CheckInput, Class, Finding};
use crate::jobgen::gen::{gen_program, has_iterate, op_histogram, random_batch, Focus, GenCfg, Generated};
use crate::jobgen::refsem::eval_program;
use crate::jobgen::types::*;
use crate::obs::Policy;
use crate::probe::TraceSink;
use crate::report::{Report, Verdict};
use crate::rng::{hash_str, mix, Rng};
use crate::run::{run_job, HostOutcome, JobEnd, JobResult, Layout, RunOpts};
use crate::Args;

pub fn layouts_for(rng: &mut Rng, n: usize, sequential_first: bool) -> Vec<Layout> {
    let mut v = Vec::new();
    if sequential_first {
        v.push(Layout::Local(1));
    }
    let pool = [
        Layout::Local(2),
        Layout::Local(3),
        Layout::Local(4),
        Layout::Local(5),
        Layout::Local(8),
        Layout::Remote(vec![1]),
        Layout::Remote(vec![1, 1]),
        Layout::Remote(vec![2, 1]),
        Layout::Remote(vec![1, 3, 2]),
        Layout::Remote(vec![2, 2]),
        Layout::Remote(vec![4, 4]),
        Layout::Remote(vec![2, 2, 2, 2]),
        Layout::Remote(vec![1, 1, 1, 5]),
        Layout::Remote(vec![3, 1]),
        Layout::Remote(vec![2, 1, 1]),
    ];
    // always one odd local parallelism and one heterogeneous remote layout
    v.push(pool[rng.below(5) as usize].clone());
    v.push(pool[5 + rng.below(10) as usize].clone());
    while v.len() < n {
        v.push(rng.pick(&pool).clone());
    }
    v.truncate(n.max(1));
    v
}

pub fn random_policy(rng: &mut Rng) -> Policy {
    let seed = rng.next_u64();
    match rng.below(8) {
        0 | 1 | 2 => Policy::none(),
        3 => Policy { name: "jitter".into(), jitter_permille: 100, jitter_max_us: 300, seed, ..Default::default() },
        4 => Policy { name: "yield-storm".into(), yield_permille: 500, seed, ..Default::default() },
        5 => Policy { name: "slow-sender-block".into(), slow_send_blocks: vec![(rng.below(6), 200)], seed, ..Default::default() },
        6 => Policy { name: "slow-receiver-block".into(), slow_recv_blocks: vec![(rng.below(8), 300)], seed, ..Default::default() },
        _ => Policy { name: "slow-network".into(), slow_net_us: 300, jitter_permille: 20, jitter_max_us: 200, seed, ..Default::default() },
    }
}

pub struct JobOutcome {
    pub findings: Vec<Finding>,
    pub stats: crate::jobgen::check::CheckStats,
    pub end: JobEnd,
    pub panics: Vec<String>,
    pub leaked: usize,
    pub wall: Duration,
    pub log: crate::obs::JobLog,
}

/// Build, run and check one program under one configuration.
pub fn run_program(
    g: &Generated,
    batch: BatchSpec,
    layout: &Layout,
    policy: Policy,
    log_links: bool,
) -> JobOutcome {
    let mut p = g.program.clone();
    p.batch = batch;
    let (expect, sinks_expected) = eval_program(&p);
    if expect.too_large {
        // generator safety net: the program multiplies its data beyond what is worth running
        return JobOutcome {
            findings: vec![],
            stats: Default::default(),
            end: JobEnd::Returned,
            panics: vec!["skipped: parallelism of the 2 blocks (not run: the program grows too large)".into()],
            leaked: 0,
            wall: Duration::ZERO,
            log: crate::obs::obs().end_job(),
        };
    }
    let traces = TraceSink::new();
    let for_each: Arc<Mutex<HashMap<Var, Vec<Rec>>>> = Default::default();
    let cx = BuildCtx { traces: traces.clone(), for_each: for_each.clone(), probes: true, fault: None, handles: None };
    let res: JobResult<Vec<SinkResult>> = run_job(
        layout,
        RunOpts { policy, log_links, ..Default::default() },
        |ctx, _h| build_program(ctx, &p, &cx),
        |handles, _h| finish_sinks(handles),
    );
    let all_traces = traces.take();
    let mut out = JobOutcome {
        findings: vec![],
        stats: Default::default(),
        end: res.end.clone(),
        panics: res.panic_messages(),
        leaked: if res.leak_certified { res.leaked_threads.len() } else { 0 },
        wall: res.wall,
        log: res.log,
    };
    if !out.panics.is_empty() || res.end != JobEnd::Returned {
        return out;
    }
    let sinks: Vec<Vec<SinkResult>> = res
        .hosts
        .into_iter()
        .map(|h| match h {
            Some(HostOutcome::Ok(v)) => v,
            _ => vec![],
        })
        .collect();
    let fe = for_each.lock().unwrap().clone();
    let (findings, stats) = check_job(&CheckInput {
        traces: &all_traces,
        expect: &expect,
        total_order: &g.total_order,
        sinks_expected: &sinks_expected,
        sinks: &sinks,
        for_each: &fe,
        hosts: layout.hosts(),
    });
    out.findings = findings;
    out.stats = stats;
    out
}

pub fn program_json(g: &Generated) -> Value {
    let p = &g.program;
    json!({
        "stmts": p.stmts.iter().map(|s| format!("{s:?}")).collect::<Vec<_>>(),
        "inputs": p.inputs.iter().map(|i| if i.len() <= 12 { json!(i.iter().map(|r| (r.id, r.k, r.v)).collect::<Vec<_>>()) } else { json!(format!("{} records", i.len())) }).collect::<Vec<_>>(),
    })
}

/// C18: every generated program is run once per entry, on one layout.
const C18_BATCHES: [BatchSpec; 7] = [
    BatchSpec::Default,
    BatchSpec::Single,
    BatchSpec::Fixed(1),
    BatchSpec::Fixed(5),
    BatchSpec::Fixed(1024),
    BatchSpec::Adaptive(1, 50),
    BatchSpec::Adaptive(1024, 2),
];

fn classes_for(prop: &str) -> &'static [Class] {
    match prop {
        "C01" => &[Class::Result, Class::Agg, Class::Join, Class::Fan, Class::Round, Class::Sink],
        "C05" => &[Class::Grammar, Class::Round],
        "C06" => &[Class::Watermark],
        "C07" => &[Class::Agg],
        "C08" => &[Class::Join],
        "C09" => &[Class::Fan],
        "C16" => &[Class::Order],
        "C04" => &[Class::Sink],
        // C18: the same program under every batch mode; every result class must agree with the
        // (batch independent) reference
        "C18" => &[Class::Result, Class::Agg, Class::Join, Class::Fan, Class::Round, Class::Sink],
        _ => &[],
    }
}

fn focus_for(prop: &str, rng: &mut Rng) -> Focus {
    match prop {
        "C07" => Focus::Agg,
        "C08" => Focus::Join,
        "C09" => Focus::Fan,
        "C16" => Focus::Seq,
        "C05" => {
            if rng.chance(1, 2) {
                Focus::Loops
            } else {
                Focus::All
            }
        }
        _ => match rng.below(8) {
            0 => Focus::Loops,
            1 => Focus::Fan,
            2 => Focus::Join,
            3 => Focus::Agg,
            _ => Focus::All,
        },
    }
}

pub fn run(args: &Args, report: &mut Report) {
    let prop = args.prop.clone();
    let mut rng = Rng::new(args.seed).fork(hash_str(&prop)).fork(args.shard);
    let (cases, nconf, max_input) = match (args.thorough, prop.as_str()) {
        (false, "C16") => (20, 3, 600),
        (false, "C18") => (5, 4, 400),
        (true, "C18") => (40, 4, 500),
        (false, _) => (16, 4, 400),
        (true, "C16") => (160, 4, 3000),
        (true, _) => (130, 6, 3000),
    };
    let classes = classes_for(&prop);
    let mut hist: HashMap<String, u64> = HashMap::new();
    for case in 0..cases {
        if (case as u64) < args.skip {
            // keep the random stream aligned with an earlier run of this shard
            let focus = focus_for(&prop, &mut rng);
            let cfg = GenCfg { focus, max_input, loops: true, max_steps: 9 };
            let mut r2 = rng.fork(case as u64);
            let _ = gen_program(&mut r2, &cfg);
            continue;
        }
        let focus = focus_for(&prop, &mut rng);
        let cfg = GenCfg { focus, max_input, loops: prop != "C16", max_steps: 9 };
        let mut crng = rng.fork(case as u64);
        let g = gen_program(&mut crng, &cfg);
        op_histogram(&g.program, &mut hist);
        let layouts = if prop == "C16" {
            let mut l = vec![Layout::Local(1), Layout::Remote(vec![1])];
            l.extend(layouts_for(&mut crng, nconf - 2, false));
            l
        } else {
            layouts_for(&mut crng, nconf, true)
        };
        // a replication change to Limited(k): add a layout in which replicas of the narrowed block
        // share a host and are fed by several remote hosts
        let mut layouts = layouts;
        if g.program.stmts.iter().any(|s| matches!(s, Stmt::Op { op: UOp::Replicate(Rep::Limited(_)), .. })) {
            layouts.push(crng.pick(&[Layout::Remote(vec![2, 1, 1]), Layout::Remote(vec![2, 2, 2, 2]), Layout::Remote(vec![3, 1, 2])]).clone());
        }
        // debugging aid: VERIF_REPEAT_CASE=<case>:<n> runs only that case, n times per layout,
        // under fresh random delay policies
        let repeat: Option<(usize, usize)> = std::env::var("VERIF_REPEAT_CASE").ok().and_then(|v| {
            let mut it = v.split(':');
            Some((it.next()?.parse().ok()?, it.next()?.parse().ok()?))
        });
        if let Some((c, n)) = repeat {
            if c != case {
                continue;
            }
            layouts = layouts.iter().flat_map(|l| std::iter::repeat(l.clone()).take(n)).collect();
        }
        if prop == "C18" {
            let l = layouts[crng.usize(0, layouts.len() - 1)].clone();
            layouts = vec![l; C18_BATCHES.len()];
        }
        let phash = hash_str(&format!("{:?}", g.program.stmts)) ^ hash_str(&format!("{:?}", g.program.inputs.iter().map(|i| i.len()).collect::<Vec<_>>()));
        for (ci, layout) in layouts.iter().enumerate() {
            let mut batch = if ci == 0 { g.program.batch } else { random_batch(&mut crng) };
            // finding F8: iterate deadlocks with many tiny batches; those configurations belong
            // to C04's dedicated workload
            if prop == "C18" {
                batch = C18_BATCHES[ci];
            } else if has_iterate(&g.program) && matches!(batch, BatchSpec::Single | BatchSpec::Fixed(1..=7)) {
                batch = BatchSpec::Fixed(64);
            }
            let policy = if ci == 0 || (prop == "C18" && ci % 2 == 0) { Policy::none() } else { random_policy(&mut crng) };
            let pname = policy.name.clone();
            let resume = case as u64 + 1;
            let witness = json!({"engine":"jobgen","property":prop,"case":case,"shard":args.shard,"seed":args.seed,
                "layout":layout.name(),"batch":format!("{batch:?}"),"policy":pname,"program":program_json(&g)});
            {
                let w = witness.clone();
                let prop2 = prop.clone();
                crate::report::RESUME_FROM.store(resume, std::sync::atomic::Ordering::SeqCst);
                crate::run::on_no_return(move |end, census, r| {
                    // the witness goes into the shard's report; the driver resumes after this case
                    let mut d = w.clone();
                    d["error"] = json!(format!("job did not return: {end:?}"));
                    d["census"] = crate::run::census_json(census);
                    let verdict = if *end == JobEnd::Deadlocked && (prop2 == "C04" || prop2 == "C18") { Verdict::Violated } else { Verdict::Inconclusive };
                    r.case(verdict, None, || d);
                });
            }
            let log_links = prop == "C08" || prop == "C09";
            let out = run_program(&g, batch, layout, policy, log_links);
            crate::run::clear_no_return();
            if log_links {
                // evidence: at every two-input block, which input delivered its last end-of-iteration
                // marker first (per consumer replica, in the order its own thread received them)
                for (class, n) in binary_end_orders(&out.log) {
                    report.count(&format!("two_input_blocks[{class}]"), n);
                }
            }
            let h = mix(phash, hash_str(&layout.name()) ^ hash_str(&format!("{batch:?}{pname}")));
            report.count("jobs", 1);
            report.count("probe_traces", out.stats.traces);
            report.count("probe_elements", out.stats.elements);
            report.count("iterations_compared", out.stats.iterations);
            report.count("sinks_compared", out.stats.sinks);
            report.count("ordered_sequences_compared", out.stats.ordered_sequences);
            report.count("engine_events", out.log.counters.sends.load(std::sync::atomic::Ordering::Relaxed));
            report.count("injected_delays", out.log.counters.delays.load(std::sync::atomic::Ordering::Relaxed));
            report.seen("layouts", layout.name());
            report.seen("batch_modes", format!("{batch:?}").split('(').next().unwrap().to_string());
            report.seen("policies", pname.clone());
            for (l, n) in &out.stats.per_label {
                report.count(&format!("probes[{l}]"), *n);
            }
            if !out.panics.is_empty() {
                // the engine rejected the program/configuration (or crashed): never a verdict on
                // the content; crashes on valid programs are reported under C01
                let msg = out.panics.join(" | ");
                let rejected = msg.contains("parallelism of the 2 blocks") || msg.contains("Cannot have an iteration block with limited parallelism");
                let mut d = witness.clone();
                d["error"] = json!(format!("job panicked: {msg}"));
                // for the other properties a crash counts when the program uses the operators the
                // property speaks about: those operators did not deliver what it promises
                let mut ph: HashMap<String, u64> = HashMap::new();
                op_histogram(&g.program, &mut ph);
                let uses = |names: &[&str]| ph.keys().any(|k| names.iter().any(|n| k.starts_with(n)));
                let relevant = match prop.as_str() {
                    "C01" | "C05" | "C18" => true,
                    "C07" => uses(&["Fold", "Reduce", "GroupBy", "RichMap", "MapState", "MapMemo", "Unique", "CountWindow"]),
                    "C08" => uses(&["Join", "SplitJoin"]),
                    "C09" => uses(&["Split", "Route", "Merge", "Zip", "Broadcast"]),
                    "C16" => true,
                    _ => false,
                };
                if rejected || !relevant {
                    report.count("jobs_panicked", 1);
                    report.case(Verdict::Inconclusive, None, || d);
                } else {
                    report.case(Verdict::Violated, Some(h), || d);
                }
                continue;
            }
            let mine: Vec<&Finding> = out.findings.iter().filter(|f| classes.contains(&f.class)).collect();
            let others = out.findings.len() - mine.len();
            if others > 0 {
                report.count("findings_of_other_properties", others as u64);
            }
            let nontrivial = out.stats.elements > 10;
            if mine.is_empty() {
                report.case(Verdict::Held, nontrivial.then_some(h), || witness.clone());
            } else {
                let mut d = witness.clone();
                d["error"] = json!(mine.iter().take(4).map(|f| format!("[{:?}] probe {} ({}): {}", f.class, f.probe, f.label, f.msg)).collect::<Vec<_>>().join(" || "));
                report.case(Verdict::Violated, Some(h), || d);
            }
        }
    }
    for (k, v) in hist {
        report.count(&format!("ops[{k}]"), v);
    }
}

/// For every replica of a block with two upstream blocks: did the input from the upstream block
/// with the smaller id ("A") or the larger id ("B") end (last FlushAndRestart received) first?
pub fn binary_end_orders(log: &crate::obs::JobLog) -> Vec<(&'static str, u64)> {
    use crate::obs::LinkEv;
    use std::collections::BTreeMap;
    let mut a_first = 0u64;
    let mut b_first = 0u64;
    let mut interleaved = 0u64;
    for (_, evs) in &log.link_events {
        // per consumer replica: sequence of (prev block, is_far) in arrival order
        let mut per: BTreeMap<crate::obs::C3, Vec<(u64, bool, bool)>> = BTreeMap::new();
        for ev in evs {
            if let LinkEv::Recv { at, elems, .. } = ev {
                let far = elems.iter().any(|e| e.kind == renoir::verif::KIND_FLUSH_AND_RESTART);
                let data = elems.iter().any(|e| e.kind == renoir::verif::KIND_ITEM || e.kind == renoir::verif::KIND_TIMESTAMPED);
                per.entry(at.0).or_default().push((at.1, far, data));
            }
        }
        for (_, seq) in per {
            let mut prevs: Vec<u64> = seq.iter().map(|x| x.0).collect();
            prevs.sort();
            prevs.dedup();
            if prevs.len() != 2 {
                continue;
            }
            let last_far = |b: u64| seq.iter().rposition(|x| x.0 == b && x.1);
            match (last_far(prevs[0]), last_far(prevs[1])) {
                (Some(a), Some(b)) if a < b => a_first += 1,
                (Some(_), Some(_)) => b_first += 1,
                _ => {}
            }
            // did data of the two inputs alternate at least twice?
            let sides: Vec<u64> = seq.iter().filter(|x| x.2).map(|x| x.0).collect();
            if sides.windows(2).filter(|w| w[0] != w[1]).count() >= 2 {
                interleaved += 1;
            }
        }
    }
    vec![("input A ended first", a_first), ("input B ended first", b_first), ("data of both inputs interleaved", interleaved)]
}
