//! C15 — parallel sources split their input exactly once across replicas.
//!
//!  * files: random contents x replica counts (local 1..12, remote layouts); every line carries a
//!    unique number; oracle: multiset of emitted lines == content.split_inclusive('\n');
//!  * csv: with / without header, "\n" or "\r\n", records of very different lengths;
//!    oracle: the records written;
//!  * ranges: `generate_iterator(index, peers)` called directly for every supported integer type;
//!    the returned Range bounds are inspected without iterating (ranges of 2^62 elements are exact);
//!  * non-parallel sources (IteratorSource, ChannelSource): output == input as a sequence.

use std::io::Write;
use std::ops::Range;
use std::path::PathBuf;

use renoir::operator::source::{ChannelSource, CsvSource, IntoParallelSource};
use serde_json::json;

use crate::report::{Report, Verdict};
use crate::rng::{mix, Rng};
use crate::run::{run_job, HostOutcome, Layout, RunOpts};
use crate::Args;

fn tmp_path(tag: &str, n: u64) -> PathBuf {
    let mut p = std::env::temp_dir();
    p.push(format!("noir-verif-{}-{tag}-{n}", std::process::id()));
    p
}

fn layouts(rng: &mut Rng) -> Layout {
    match rng.below(10) {
        0 => Layout::Local(1),
        1 => Layout::Local(2),
        2 => Layout::Local(3),
        3 => Layout::Local(rng.below(9) + 4),
        4 => Layout::Local(rng.below(12) + 1),
        5 => Layout::Remote(vec![1, 1]),
        6 => Layout::Remote(vec![2, 1]),
        7 => Layout::Remote(vec![1, 3, 2]),
        8 => Layout::Remote(vec![rng.below(4) + 1, rng.below(4) + 1]),
        _ => Layout::Remote(vec![1, 1, 1, rng.below(5) + 1]),
    }
}

/// Random text: lines with unique numbers and very different lengths.
fn gen_text(rng: &mut Rng) -> (String, &'static str) {
    let class = rng.below(9);
    let nlines = match class {
        0 => 0,
        1 => 1,
        2 => rng.usize(1, 4),
        _ => rng.usize(2, 120),
    };
    let crlf = rng.chance(1, 4);
    let nl = if crlf { "\r\n" } else { "\n" };
    let mut s = String::new();
    for i in 0..nlines {
        match rng.below(8) {
            0 => {}                                          // empty line
            1 => s.push_str(&format!("{i}")),                // short
            2 => {
                // very long line (longer than a replica's byte range)
                s.push_str(&format!("{i}:"));
                for _ in 0..rng.usize(100, 3000) {
                    s.push('x');
                }
            }
            3 => s.push_str(&format!("{i}#")),
            _ => {
                s.push_str(&format!("{i} "));
                for _ in 0..rng.usize(0, 40) {
                    s.push((b'a' + rng.below(26) as u8) as char);
                }
            }
        }
        if i + 1 < nlines || !rng.chance(1, 3) {
            s.push_str(nl);
        }
    }
    let name = match class {
        0 => "empty",
        1 => "one-line",
        2 => "few-lines",
        _ => "many-lines",
    };
    (s, name)
}

fn files(args: &Args, report: &mut Report, rng: &mut Rng) {
    let cases = if args.thorough { 220 } else { 22 };
    for c in 0..cases {
        let (mut text, class) = gen_text(rng);
        // sometimes force a replica boundary exactly onto a line start / end
        let path = tmp_path("file", c);
        if rng.chance(1, 3) && !text.is_empty() {
            // make the size divisible by a small replica count so that boundaries are "round"
            while text.len() % 4 != 0 {
                text.push('\n');
            }
        }
        std::fs::File::create(&path).unwrap().write_all(text.as_bytes()).unwrap();
        let mut expected: Vec<String> = text.split_inclusive('\n').map(|s| s.to_string()).collect();
        expected.sort();
        let nlay = if args.thorough { 6 } else { 4 };
        for _ in 0..nlay {
            let layout = layouts(rng);
            let p2 = path.clone();
            let res = run_job(
                &layout,
                RunOpts::default(),
                move |ctx, _| ctx.stream_file(p2.clone()).collect_vec(),
                |o, _| o.get(),
            );
            let h = mix(crate::rng::hash_str(&text), crate::rng::hash_str(&layout.name()));
            let detail = |err: Option<String>| {
                json!({"engine":"srcmon.file","layout":layout.name(),"class":class,"bytes":text.len(),
                       "lines":expected.len(),"content": if text.len() < 300 {json!(text)} else {json!(null)},
                       "error":err})
            };
            if !res.all_ok() {
                report.case(Verdict::Inconclusive, None, || detail(Some(format!("job failed {:?}", res.panic_messages()))));
                continue;
            }
            let mut got: Vec<String> = Vec::new();
            for hst in res.hosts.iter().flatten() {
                if let HostOutcome::Ok(Some(v)) = hst {
                    got.extend(v.iter().cloned());
                }
            }
            got.sort();
            report.count("file_jobs", 1);
            report.count("file_lines_checked", expected.len() as u64);
            report.seen("file_layouts", layout.name());
            report.seen("file_classes", class);
            if (layout.total_cores() as usize) > expected.len() {
                report.count("file_more_replicas_than_lines", 1);
            }
            if got == expected {
                report.case(Verdict::Held, (expected.len() >= 2).then_some(h), || detail(None));
            } else {
                let missing: Vec<_> = expected.iter().filter(|l| !got.contains(l)).take(3).collect();
                let extra: Vec<_> = got.iter().filter(|l| !expected.contains(l)).take(3).collect();
                report.case(Verdict::Violated, Some(h), || {
                    detail(Some(format!(
                        "emitted {} lines, file has {}; missing e.g. {missing:?}, unexpected e.g. {extra:?}",
                        got.len(), expected.len())))
                });
            }
        }
        let _ = std::fs::remove_file(&path);
    }
}

fn csvs(args: &Args, report: &mut Report, rng: &mut Rng) {
    let cases = if args.thorough { 200 } else { 20 };
    for c in 0..cases {
        let header = rng.chance(1, 2);
        let nl = if rng.chance(1, 2) { "\r\n" } else { "\n" };
        let n = match rng.below(6) {
            0 => 0,
            1 => 1,
            2 => rng.usize(1, 5),
            _ => rng.usize(2, 150),
        };
        let mut text = String::new();
        if header {
            text.push_str(&format!("id,val{nl}"));
        }
        let mut expected: Vec<(u64, String)> = Vec::new();
        for i in 0..n {
            let len = match rng.below(6) {
                0 => 1,
                1 => rng.usize(200, 2000),
                _ => rng.usize(1, 30),
            };
            let val: String = (0..len).map(|_| (b'a' + rng.below(26) as u8) as char).collect();
            text.push_str(&format!("{i},{val}"));
            if i + 1 < n || !rng.chance(1, 3) {
                text.push_str(nl);
            }
            expected.push((i as u64, val));
        }
        let path = tmp_path("csv", c);
        std::fs::File::create(&path).unwrap().write_all(text.as_bytes()).unwrap();
        expected.sort();
        let nlay = if args.thorough { 6 } else { 4 };
        for _ in 0..nlay {
            let layout = layouts(rng);
            let p2 = path.clone();
            let res = run_job(
                &layout,
                RunOpts::default(),
                move |ctx, _| {
                    ctx.stream(CsvSource::<(u64, String)>::new(p2.clone()).has_headers(header))
                        .collect_vec()
                },
                |o, _| o.get(),
            );
            let h = mix(crate::rng::hash_str(&text), crate::rng::hash_str(&layout.name()) ^ 0xC5);
            let detail = |err: Option<String>| {
                json!({"engine":"srcmon.csv","layout":layout.name(),"header":header,"crlf":nl=="\r\n",
                       "records":expected.len(),"bytes":text.len(),
                       "content": if text.len() < 300 {json!(text)} else {json!(null)},"error":err})
            };
            if !res.all_ok() {
                // a panic of the source on a well-formed file is a failure to emit the records
                if res.any_panicked() && res.end == crate::run::JobEnd::Returned {
                    report.case(Verdict::Violated, Some(h), || {
                        detail(Some(format!("job panicked on a well-formed csv file: {:?}", res.panic_messages())))
                    });
                } else {
                    report.case(Verdict::Inconclusive, None, || detail(Some("job did not complete".into())));
                }
                continue;
            }
            let mut got: Vec<(u64, String)> = Vec::new();
            for hst in res.hosts.iter().flatten() {
                if let HostOutcome::Ok(Some(v)) = hst {
                    got.extend(v.iter().cloned());
                }
            }
            got.sort();
            report.count("csv_jobs", 1);
            report.count("csv_records_checked", expected.len() as u64);
            report.seen("csv_layouts", layout.name());
            if got == expected {
                report.case(Verdict::Held, (expected.len() >= 2).then_some(h), || detail(None));
            } else {
                let missing: Vec<_> = expected.iter().filter(|l| !got.contains(l)).map(|x| x.0).take(5).collect();
                let extra: Vec<_> = got.iter().filter(|l| !expected.contains(l)).map(|x| (x.0, x.1.len())).take(5).collect();
                let dups = got.len() as i64 - { let mut g = got.clone(); g.dedup(); g.len() as i64 };
                report.case(Verdict::Violated, Some(h), || {
                    detail(Some(format!(
                        "emitted {} records, file has {}; missing ids {missing:?}, unexpected (id,len) {extra:?}, duplicates {dups}",
                        got.len(), expected.len())))
                });
            }
        }
        let _ = std::fs::remove_file(&path);
    }
}

// ---------------------------------------------------------------------------------------------
// ranges

trait Int: Copy + std::fmt::Debug + PartialOrd {
    const MIN: i128;
    const MAX: i128;
    const NAME: &'static str;
    fn from_i128(x: i128) -> Self;
    fn to_i128(self) -> i128;
}
macro_rules! int_impl {
    ($($t:ty),*) => {$(
        impl Int for $t {
            const MIN: i128 = <$t>::MIN as i128;
            const MAX: i128 = <$t>::MAX as i128;
            const NAME: &'static str = stringify!($t);
            fn from_i128(x: i128) -> Self { x as $t }
            fn to_i128(self) -> i128 { self as i128 }
        }
    )*};
}
int_impl!(u8, u16, u32, u64, usize, i8, i16, i32, i64, isize);

fn check_range<T>(a: i128, b: i128, peers: u64) -> Result<(), String>
where
    T: Int,
    Range<T>: IntoParallelSource<Iter = Range<T>>,
{
    let r = T::from_i128(a)..T::from_i128(b);
    let outcome = std::panic::catch_unwind(std::panic::AssertUnwindSafe(|| {
        (0..peers)
            .map(|i| {
                let s = r.clone().generate_iterator(i, peers);
                (s.start.to_i128(), s.end.to_i128())
            })
            .collect::<Vec<_>>()
    }));
    let subs = match outcome {
        Ok(s) => s,
        Err(_) => return Err("generate_iterator panicked".into()),
    };
    // non-empty sub-ranges must be ordered, disjoint, contiguous and cover exactly [a, b)
    let mut cursor = a;
    for (i, &(s, e)) in subs.iter().enumerate() {
        if s >= e {
            continue; // empty sub-range yields nothing
        }
        if b <= a {
            return Err(format!("empty/reversed range but replica {i} yields {s}..{e}"));
        }
        if s != cursor {
            return Err(format!(
                "replica {i} yields {s}..{e} but the next element not yet produced is {cursor} (sub-ranges {subs:?})"
            ));
        }
        if e > b {
            return Err(format!("replica {i} yields {s}..{e} beyond the end {b}"));
        }
        cursor = e;
    }
    if b > a && cursor != b {
        return Err(format!("union of sub-ranges ends at {cursor}, range ends at {b} (sub-ranges {subs:?})"));
    }
    Ok(())
}

fn ranges_for<T>(args: &Args, report: &mut Report, rng: &mut Rng)
where
    T: Int,
    Range<T>: IntoParallelSource<Iter = Range<T>>,
{
    let mut bounds: Vec<i128> = vec![T::MIN, T::MIN + 1, T::MIN + 10, -1, 0, 1, 2, 7, 10, 100, T::MAX - 10, T::MAX - 1, T::MAX];
    bounds.retain(|x| *x >= T::MIN && *x <= T::MAX);
    let n_random = if args.thorough { 400 } else { 40 };
    let mut pairs: Vec<(i128, i128)> = Vec::new();
    for &a in &bounds {
        for &b in &bounds {
            pairs.push((a, b));
        }
    }
    for _ in 0..n_random {
        let span = T::MAX - T::MIN;
        let pick = |rng: &mut Rng| -> i128 {
            match rng.below(4) {
                0 => T::MIN + (rng.next_u64() as i128 % 1000).min(span),
                1 => T::MAX - (rng.next_u64() as i128 % 1000).min(span),
                2 => ((rng.next_u64() as i128 % 2001) - 1000).clamp(T::MIN, T::MAX),
                _ => T::MIN + ((rng.next_u64() as i128) % (span + 1)),
            }
        };
        pairs.push((pick(rng), pick(rng)));
    }
    for (a, b) in pairs {
        // ranges longer than 2^62 elements are outside the statement
        if b - a > (1i128 << 62) {
            continue;
        }
        for peers in (1..=17u64).chain([64]) {
            let r = check_range::<T>(a, b, peers);
            let h = mix(mix(a as u64, b as u64), mix(peers, crate::rng::hash_str(T::NAME)));
            let class = if b < a { "reversed" } else if b == a { "empty" } else if b - a < peers as i128 { "fewer-than-peers" } else { "normal" };
            report.seen("range_classes", format!("{}:{class}", T::NAME));
            report.count("range_cases", 1);
            let detail = |err: Option<&String>| {
                json!({"engine":"srcmon.range","type":T::NAME,"start":a.to_string(),"end":b.to_string(),"peers":peers,"class":class,"error":err})
            };
            match r {
                Ok(()) => report.case(Verdict::Held, Some(h), || detail(None)),
                Err(e) => report.case(Verdict::Violated, Some(h), || detail(Some(&e))),
            }
        }
    }
}

fn ranges(args: &Args, report: &mut Report, rng: &mut Rng) {
    // each shard takes some of the types
    let mut t = 0u64;
    macro_rules! go {
        ($($ty:ty),*) => {$(
            if t % args.shards == args.shard { ranges_for::<$ty>(args, report, rng); }
            t += 1;
        )*};
    }
    go!(u8, u16, u32, u64, usize, i8, i16, i32, i64, isize);
    let _ = t;
}

fn par_iter_e2e(args: &Args, report: &mut Report, rng: &mut Rng) {
    let cases = if args.thorough { 120 } else { 12 };
    for _ in 0..cases {
        let a = rng.range(-50, 50);
        let len = match rng.below(5) { 0 => 0, 1 => rng.range(1, 3), 2 => -rng.range(1, 20), _ => rng.range(1, 400) };
        let b = a + len;
        let layout = layouts(rng);
        let res = run_job(
            &layout,
            RunOpts::default(),
            move |ctx, _| ctx.stream_par_iter(a..b).collect_vec(),
            |o, _| o.get(),
        );
        let h = mix(mix(a as u64, b as u64), crate::rng::hash_str(&layout.name()));
        let detail = |err: Option<String>| json!({"engine":"srcmon.par_iter","range":format!("{a}..{b}"),"layout":layout.name(),"error":err});
        if !res.all_ok() {
            if res.any_panicked() && res.end == crate::run::JobEnd::Returned {
                report.case(Verdict::Violated, Some(h), || detail(Some(format!("job panicked: {:?}", res.panic_messages()))));
            } else {
                report.case(Verdict::Inconclusive, None, || detail(Some("job did not complete".into())));
            }
            continue;
        }
        let mut got: Vec<i64> = Vec::new();
        for hst in res.hosts.iter().flatten() {
            if let HostOutcome::Ok(Some(v)) = hst {
                got.extend(v.iter().cloned());
            }
        }
        got.sort();
        let expected: Vec<i64> = (a..b).collect();
        report.count("par_iter_jobs", 1);
        if got == expected {
            report.case(Verdict::Held, (expected.len() >= 2).then_some(h), || detail(None));
        } else {
            report.case(Verdict::Violated, Some(h), || detail(Some(format!("sink got {} elements, range has {}", got.len(), expected.len()))));
        }
    }
}

fn sequential_sources(args: &Args, report: &mut Report, rng: &mut Rng) {
    let cases = if args.thorough { 100 } else { 10 };
    for c in 0..cases {
        let n = match rng.below(4) { 0 => 0, 1 => 1, _ => rng.usize(2, 3000) };
        let input: Vec<u64> = (0..n as u64).map(|i| mix(i, c)).collect();
        let layout = layouts(rng);
        let use_channel = rng.chance(1, 2);
        let input2 = input.clone();
        let res = run_job(
            &layout,
            RunOpts::default(),
            move |ctx, _| {
                if use_channel {
                    let (tx, src) = ChannelSource::new(4);
                    let data = input2.clone();
                    // the feeder runs beside the job and closes the channel at the end
                    let feeder = std::thread::spawn(move || {
                        for (i, x) in data.into_iter().enumerate() {
                            if i % 97 == 13 {
                                std::thread::sleep(std::time::Duration::from_millis(1));
                            }
                            if tx.send(x).is_err() {
                                break;
                            }
                        }
                    });
                    (ctx.stream(src).collect_vec(), Some(feeder))
                } else {
                    (ctx.stream_iter(input2.clone().into_iter()).collect_vec(), None)
                }
            },
            |(o, feeder), _| {
                if let Some(f) = feeder {
                    let _ = f.join();
                }
                o.get()
            },
        );
        let h = mix(mix(n as u64, c), crate::rng::hash_str(&layout.name()) ^ use_channel as u64);
        let detail = |err: Option<String>| json!({"engine":"srcmon.sequential","source": if use_channel {"ChannelSource"} else {"IteratorSource"},"len":n,"layout":layout.name(),"error":err});
        if !res.all_ok() {
            report.case(Verdict::Inconclusive, None, || detail(Some(format!("job failed {:?}", res.panic_messages()))));
            continue;
        }
        let mut holders = 0;
        let mut got: Vec<u64> = Vec::new();
        for hst in res.hosts.iter().flatten() {
            if let HostOutcome::Ok(Some(v)) = hst {
                holders += 1;
                got = v.clone();
            }
        }
        report.count("sequential_source_jobs", 1);
        if holders == 1 && got == input {
            report.case(Verdict::Held, (n >= 2).then_some(h), || detail(None));
        } else {
            let first_diff = got.iter().zip(input.iter()).position(|(a, b)| a != b);
            report.case(Verdict::Violated, Some(h), || {
                detail(Some(format!("{holders} hosts hold the result; got {} elements, expected {}; first difference at {first_diff:?}", got.len(), input.len())))
            });
        }
    }
}

pub fn run(args: &Args, report: &mut Report) {
    let mut rng = Rng::new(args.seed).fork(0xC15).fork(args.shard);
    let sub = args.sub.as_deref();
    if sub.is_none() || sub == Some("ranges") {
        ranges(args, report, &mut rng);
    }
    if sub.is_none() || sub == Some("files") {
        files(args, report, &mut rng);
    }
    if sub.is_none() || sub == Some("csv") {
        csvs(args, report, &mut rng);
    }
    if sub.is_none() || sub == Some("par_iter") {
        par_iter_e2e(args, report, &mut rng);
    }
    if sub.is_none() || sub == Some("sequential") {
        sequential_sources(args, report, &mut rng);
    }
}
