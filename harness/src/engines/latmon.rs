//! C18 — batching never withholds data: bounded delay if adaptive, flushed at the end of the
//! iteration in any mode.
//!
//! Restatement decided on a finite run: with adaptive batching, after the harness hands a burst
//! of k < batch-size elements to a channel source and then stays silent (source idle, still
//! open), every element reaches `collect_channel` within `2 s + 100 x depth x max_delay` — two
//! orders of magnitude above the claim, so machine load cannot flip the verdict; a miss is
//! re-run three times and reported only if it reproduces every time (otherwise inconclusive).
//! The observed latencies are evidence of the "small multiple", not the verdict. With any batch
//! mode everything handed to the source must have arrived once the source is closed.

use std::sync::{Arc, Mutex};
use std::time::{Duration, Instant};

use renoir::operator::source::ChannelSource;
use renoir::prelude::*;
use renoir::Replication;
use serde_json::json;

use crate::probe::BoxExt;
use crate::report::{Report, Verdict};
use crate::rng::{hash_str, mix, Rng};
use crate::run::{run_job, Layout, RunOpts};
use crate::Args;

#[derive(Clone, Debug)]
struct LatCase {
    depth: usize,
    conns: Vec<u8>,
    adaptive: bool,
    batch_size: usize,
    max_delay_ms: u64,
    bursts: Vec<usize>,
    pause_ms: u64,
    layout: Layout,
    /// gap between the sends of one burst (0 = back to back); always below max_delay
    spacing_ms: u64,
    /// the channel source is merged with a finite stream that ends at once
    merge_with_finite: usize,
}

#[derive(Default, Debug, Clone)]
struct LatOutcome {
    /// per element: latency (us) from send to arrival while the source was idle and open
    latencies_us: Vec<u64>,
    /// elements of a burst that had not arrived by the deadline
    missed_while_idle: usize,
    /// elements that had still not arrived after the source was closed and the job ended
    lost_after_close: usize,
    sent: usize,
}

fn run_case(c: &LatCase) -> Option<LatOutcome> {
    let outcome: Arc<Mutex<Option<LatOutcome>>> = Default::default();
    let (c2, out2) = (c.clone(), outcome.clone());
    let batch = if c.adaptive {
        BatchMode::adaptive(c.batch_size, Duration::from_millis(c.max_delay_ms))
    } else {
        BatchMode::fixed(c.batch_size)
    };
    let bound = Duration::from_secs(2) + Duration::from_millis(100 * c.depth as u64 * c.max_delay_ms);
    let res = run_job(
        &c.layout,
        RunOpts { watchdog: Duration::from_secs(300), quiet: Duration::from_secs(60), ..Default::default() },
        move |ctx, h| {
            let (tx, src) = ChannelSource::<u64>::new(64);
            let mut s = if c2.merge_with_finite > 0 {
                let n = c2.merge_with_finite as u64;
                ctx.stream(src).batch_mode(batch).merge(ctx.stream_iter(1_000_000..1_000_000 + n).batch_mode(batch)).boxed()
            } else {
                ctx.stream(src).batch_mode(batch).map(|x| x).boxed()
            };
            for conn in &c2.conns {
                s = match conn {
                    0 => s.shuffle().map(|x| x).boxed(),
                    1 => s.group_by(|x| x % 5).drop_key().boxed(),
                    2 => s.replication(Replication::One).map(|x| x).boxed(),
                    3 => {
                        // route(): its own End variant; the routes are merged back
                        let mut r = s.route().add_route(|x| x % 2 == 0).add_route(|_| true).build().into_iter();
                        let (a, b) = (r.next().unwrap(), r.next().unwrap());
                        a.map(|x| x).merge(b.map(|x| x)).boxed()
                    }
                    _ => {
                        // split(): two copies, one is filtered away after a shuffle
                        let mut sp = s.split(2).into_iter();
                        let (a, b) = (sp.next().unwrap(), sp.next().unwrap());
                        a.shuffle().merge(b.filter(|_| false).shuffle()).boxed()
                    }
                };
            }
            let rx = s.collect_channel();
            if h != 0 {
                return None;
            }
            let c3 = c2.clone();
            let out3 = out2.clone();
            Some(std::thread::spawn(move || {
                let mut o = LatOutcome::default();
                let mut next = 0u64;
                let mut pending: std::collections::HashMap<u64, Instant> = Default::default();
                // the elements of the finite side are available from the start
                for i in 0..c3.merge_with_finite as u64 {
                    pending.insert(1_000_000 + i, Instant::now());
                    o.sent += 1;
                }
                for burst in &c3.bursts {
                    for _ in 0..*burst {
                        pending.insert(next, Instant::now());
                        o.sent += 1;
                        if tx.send(next).is_err() {
                            break;
                        }
                        next += 1;
                        if c3.spacing_ms > 0 {
                            std::thread::sleep(Duration::from_millis(c3.spacing_ms));
                        }
                    }
                    // the source is now idle and open: wait for the burst
                    let deadline = Instant::now() + bound;
                    while !pending.is_empty() {
                        let left = deadline.saturating_duration_since(Instant::now());
                        if left.is_zero() {
                            break;
                        }
                        match rx.recv_timeout(left) {
                            Ok(x) => {
                                if let Some(t0) = pending.remove(&x) {
                                    o.latencies_us.push(t0.elapsed().as_micros() as u64);
                                }
                            }
                            Err(_) => break,
                        }
                    }
                    if c3.adaptive {
                        o.missed_while_idle += pending.len();
                    }
                    std::thread::sleep(Duration::from_millis(c3.pause_ms));
                }
                // close the source: the iteration ends, everything must come out
                drop(tx);
                while let Ok(x) = rx.recv_timeout(Duration::from_secs(60)) {
                    pending.remove(&x);
                }
                o.lost_after_close = pending.len();
                *out3.lock().unwrap() = Some(o);
            }))
        },
        |t, _| {
            if let Some(t) = t {
                let _ = t.join();
            }
        },
    );
    if !res.all_ok() {
        return None;
    }
    let o = outcome.lock().unwrap().clone();
    o
}

pub fn run(args: &Args, report: &mut Report) {
    let mut rng = Rng::new(args.seed).fork(0xC18).fork(args.shard);
    let cases = if args.thorough { 40 } else { 5 };
    for case in 0..cases {
        let depth = rng.usize(1, 4);
        let adaptive = rng.chance(4, 5);
        let c = LatCase {
            depth,
            conns: (0..depth).map(|_| rng.below(5) as u8).collect(),
            adaptive,
            batch_size: *rng.pick(&[8usize, 64, 1024]),
            max_delay_ms: *rng.pick(&[2u64, 5, 10, 20, 50]),
            bursts: (0..rng.usize(1, 4)).map(|_| rng.usize(1, 6)).collect(),
            pause_ms: *rng.pick(&[0u64, 3, 30, 120]),
            layout: rng.pick(&[Layout::Local(1), Layout::Local(2), Layout::Local(4), Layout::Remote(vec![1, 1]), Layout::Remote(vec![2, 1])]).clone(),
            spacing_ms: 0,
            merge_with_finite: if rng.chance(1, 3) { rng.usize(1, 20) } else { 0 },
        };
        let mut c = c;
        if rng.chance(1, 2) {
            // elements trickle in one at a time, faster than the batch delay, then silence
            c.spacing_ms = (c.max_delay_ms / 4).max(1);
        }
        let h = mix(hash_str(&format!("{c:?}")), case);
        let detail = |o: Option<&LatOutcome>, err: Option<String>| {
            let mut lat = o.map(|o| o.latencies_us.clone()).unwrap_or_default();
            lat.sort();
            json!({"engine":"latmon","case":case,"shard":args.shard,"seed":args.seed,"depth":c.depth,"connections":c.conns,"mode": if c.adaptive {"adaptive"} else {"fixed"},
                "batch_size":c.batch_size,"max_delay_ms":c.max_delay_ms,"bursts":c.bursts,"pause_ms":c.pause_ms,"spacing_ms":c.spacing_ms,"merged_with_finite_stream_of":c.merge_with_finite,"layout":c.layout.name(),
                "latency_us_p50": lat.get(lat.len() / 2), "latency_us_max": lat.last(),
                "bound_ms": 2000 + 100 * c.depth as u64 * c.max_delay_ms, "error":err})
        };
        let Some(o) = run_case(&c) else {
            report.case(Verdict::Inconclusive, None, || detail(None, Some("job failed".into())));
            continue;
        };
        report.count("latency_jobs", 1);
        report.count("elements_sent", o.sent as u64);
        report.count("elements_delivered_while_source_idle", o.latencies_us.len() as u64);
        report.seen("modes", if c.adaptive { "adaptive" } else { "fixed" });
        report.seen("depths", format!("{}", c.depth));
        if c.adaptive {
            for l in &o.latencies_us {
                // as a multiple of depth x max_delay (evidence of the "small multiple")
                let unit = (c.depth as u64 * c.max_delay_ms * 1000).max(1);
                report.max("latency_in_units_of_depth_x_max_delay_x100", l * 100 / unit);
            }
        }
        if o.lost_after_close > 0 {
            report.case(Verdict::Violated, Some(h), || detail(Some(&o), Some(format!("{} elements handed to the source never reached the sink although the source was closed and the job ended", o.lost_after_close))));
            continue;
        }
        if o.missed_while_idle > 0 {
            // re-run the same case three times; report only if it reproduces every time
            let mut reproduced = 0;
            for _ in 0..3 {
                if let Some(o2) = run_case(&c) {
                    if o2.missed_while_idle > 0 {
                        reproduced += 1;
                    }
                }
            }
            if reproduced == 3 {
                report.case(Verdict::Violated, Some(h), || detail(Some(&o), Some(format!("{} elements of a burst were withheld while the source was idle and open (bound exceeded; reproduced in 3 of 3 re-runs)", o.missed_while_idle))));
            } else {
                report.case(Verdict::Inconclusive, None, || detail(Some(&o), Some(format!("a burst missed the bound once but reproduced only {reproduced}/3 times"))));
            }
            continue;
        }
        report.case(Verdict::Held, Some(h), || detail(Some(&o), None));
    }
}
