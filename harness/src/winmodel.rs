//! Reference model of count windows, written from the property statement (C12).

/// What must be emitted after each element and at the end of an iteration.
/// Returns (group emitted right after element i, if any; group emitted at the end, if any).
#[allow(clippy::type_complexity)]
pub fn count_model(
    n: usize,
    s: usize,
    exact: bool,
    len: usize,
) -> (Vec<Option<(usize, usize)>>, Option<(usize, usize)>) {
    let mut per = vec![None; len];
    let mut j = 0;
    while j * s + n <= len {
        per[j * s + n - 1] = Some((j * s, j * s + n));
        j += 1;
    }
    // j is now the oldest incomplete group
    let end = if !exact && j * s < len {
        Some((j * s, len))
    } else {
        None
    };
    (per, end)
}

/// All groups of one key's sequence of length `len`, in emission order.
pub fn count_groups(n: usize, s: usize, exact: bool, len: usize) -> Vec<(usize, usize)> {
    let (per, end) = count_model(n, s, exact, len);
    per.into_iter().flatten().chain(end).collect()
}
