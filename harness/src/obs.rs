//! The process-wide observer installed into the engine's `verif` hooks.
//!
//! It keeps (a) a census of engine threads and what each is currently blocked on (for the
//! quiescence certificate), (b) an optional per-thread link log (for the link checkers) and
//! (c) the delay policy (schedule perturbation at the engine's own blocking points).

use std::cell::RefCell;
use std::collections::HashMap;
use std::sync::atomic::{AtomicU64, AtomicU8, Ordering};
use std::sync::{Arc, Mutex, OnceLock};
use std::time::Duration;

use renoir::verif::{Coord, ElemDigest, Event, NetThread, Observer, ReceiverEndpoint};

use crate::rng::mix;

pub type C3 = (u64, u64, u64);
/// `(receiving replica, previous block id)`
pub type Ep = (C3, u64);

pub fn c3(c: Coord) -> C3 {
    (c.block_id, c.host_id, c.replica_id)
}
pub fn ep(e: ReceiverEndpoint) -> Ep {
    (c3(e.coord), e.prev_block_id)
}

pub const ST_RUNNING: u8 = 0;
pub const ST_SEND: u8 = 1;
pub const ST_RECV: u8 = 2;
pub const ST_RECV_POLL: u8 = 3;
pub const ST_STATE_WAIT: u8 = 4;
pub const ST_BARRIER: u8 = 5;
pub const ST_NET_IDLE: u8 = 6;
pub const ST_ENDED: u8 = 7;

#[derive(Debug, Clone)]
pub enum LinkEv {
    Send {
        from: C3,
        to: Ep,
        remote: bool,
        elems: Vec<ElemDigest>,
    },
    Recv {
        at: Ep,
        from: C3,
        elems: Vec<ElemDigest>,
    },
}

pub struct Slot {
    pub name: String,
    pub state: AtomicU8,
    /// What the thread is blocked on (endpoint), valid for ST_SEND / ST_RECV.
    pub target: Mutex<Option<(Ep, Option<Ep>)>>,
    pub coord: Mutex<Option<C3>>,
    pub net: Mutex<Option<(NetThread, C3)>>,
    pub log: Mutex<Vec<LinkEv>>,
    pub seq: AtomicU64,
}

/// Where and how much to delay. All delays happen inside observer callbacks, i.e. at the
/// engine's own blocking points.
#[derive(Debug, Clone, Default)]
pub struct Policy {
    pub name: String,
    /// Probability (per 1000) of a random jitter at each send / receive, and its max in us.
    pub jitter_permille: u64,
    pub jitter_max_us: u64,
    /// Fixed delay (us) before every send of these sender blocks (slow link / slow sender).
    pub slow_send_blocks: Vec<(u64, u64)>,
    /// Fixed delay (us) before every send of these sender replicas (block, host, replica).
    pub slow_send_replicas: Vec<(C3, u64)>,
    /// Fixed delay (us) after every receive by replicas of these blocks (slow receiver).
    pub slow_recv_blocks: Vec<(u64, u64)>,
    /// Delay (us) after receiving a batch sent by a replica of `block` on a receiver of `host`
    /// (one slow link, e.g. the state feedback towards one host): (block, host, us).
    pub slow_recv_links: Vec<(u64, u64, u64)>,
    /// Delay (us) in mux/demux threads for each message (slow network).
    pub slow_net_us: u64,
    /// Yield at every event with this probability (per 1000).
    pub yield_permille: u64,
    pub seed: u64,
}

impl Policy {
    pub fn none() -> Self {
        Policy {
            name: "none".into(),
            ..Default::default()
        }
    }
    pub fn is_none(&self) -> bool {
        self.jitter_permille == 0
            && self.slow_send_blocks.is_empty()
            && self.slow_send_replicas.is_empty()
            && self.slow_recv_blocks.is_empty()
            && self.slow_recv_links.is_empty()
            && self.slow_net_us == 0
            && self.yield_permille == 0
    }
}

#[derive(Default)]
pub struct JobCounters {
    pub workers_started: AtomicU64,
    pub workers_ended: AtomicU64,
    pub workers_panicked: AtomicU64,
    pub net_started: AtomicU64,
    pub net_ended: AtomicU64,
    pub sends: AtomicU64,
    pub recvs: AtomicU64,
    pub elems_sent: AtomicU64,
    pub state_waits: AtomicU64,
    pub state_waits_blocked: AtomicU64,
    pub state_sets: AtomicU64,
    pub delays: AtomicU64,
}

pub struct Obs {
    pub events: AtomicU64,
    epoch: AtomicU64,
    slots: Mutex<Vec<Arc<Slot>>>,
    policy: Mutex<Arc<Policy>>,
    log_links: AtomicU8,
    pub counters: Mutex<Arc<JobCounters>>,
}

thread_local! {
    static SLOT: RefCell<Option<(u64, Arc<Slot>)>> = const { RefCell::new(None) };
}

static OBS: OnceLock<Arc<Obs>> = OnceLock::new();

/// Install the observer (idempotent) and return it.
pub fn obs() -> Arc<Obs> {
    OBS.get_or_init(|| {
        let o = Arc::new(Obs {
            events: AtomicU64::new(0),
            epoch: AtomicU64::new(1),
            slots: Mutex::new(Vec::new()),
            policy: Mutex::new(Arc::new(Policy::none())),
            log_links: AtomicU8::new(0),
            counters: Mutex::new(Arc::new(JobCounters::default())),
        });
        renoir::verif::set_observer(Some(o.clone() as Arc<dyn Observer>));
        o
    })
    .clone()
}

pub struct JobLog {
    pub link_events: Vec<(String, Vec<LinkEv>)>,
    pub counters: Arc<JobCounters>,
}

#[derive(Debug, Clone)]
pub struct ThreadSnap {
    pub name: String,
    pub state: u8,
    pub coord: Option<C3>,
    pub net: Option<(NetThread, C3)>,
    pub target: Option<(Ep, Option<Ep>)>,
}

impl Obs {
    pub fn begin_job(&self, policy: Policy, log_links: bool) {
        self.epoch.fetch_add(1, Ordering::SeqCst);
        self.slots.lock().unwrap().clear();
        *self.policy.lock().unwrap() = Arc::new(policy);
        self.log_links.store(log_links as u8, Ordering::SeqCst);
        *self.counters.lock().unwrap() = Arc::new(JobCounters::default());
    }

    pub fn end_job(&self) -> JobLog {
        let slots = std::mem::take(&mut *self.slots.lock().unwrap());
        self.log_links.store(0, Ordering::SeqCst);
        *self.policy.lock().unwrap() = Arc::new(Policy::none());
        let link_events = slots
            .iter()
            .map(|s| (s.name.clone(), std::mem::take(&mut *s.log.lock().unwrap())))
            .filter(|(_, l)| !l.is_empty())
            .collect();
        let counters = self.counters.lock().unwrap().clone();
        // invalidate thread-local slots of threads that may still be alive
        self.epoch.fetch_add(1, Ordering::SeqCst);
        JobLog {
            link_events,
            counters,
        }
    }

    pub fn snapshot(&self) -> Vec<ThreadSnap> {
        self.slots
            .lock()
            .unwrap()
            .iter()
            .map(|s| ThreadSnap {
                name: s.name.clone(),
                state: s.state.load(Ordering::SeqCst),
                coord: *s.coord.lock().unwrap(),
                net: *s.net.lock().unwrap(),
                target: *s.target.lock().unwrap(),
            })
            .collect()
    }

    fn slot(&self) -> Arc<Slot> {
        let epoch = self.epoch.load(Ordering::SeqCst);
        SLOT.with(|cell| {
            let mut cell = cell.borrow_mut();
            if let Some((e, s)) = cell.as_ref() {
                if *e == epoch {
                    return s.clone();
                }
            }
            let s = Arc::new(Slot {
                name: std::thread::current()
                    .name()
                    .unwrap_or("?")
                    .to_string(),
                state: AtomicU8::new(ST_RUNNING),
                target: Mutex::new(None),
                coord: Mutex::new(None),
                net: Mutex::new(None),
                log: Mutex::new(Vec::new()),
                seq: AtomicU64::new(0),
            });
            self.slots.lock().unwrap().push(s.clone());
            *cell = Some((epoch, s.clone()));
            s
        })
    }

    fn delay(&self, slot: &Slot, pol: &Policy, us: u64, ctr: &JobCounters) {
        let _ = (slot, pol);
        if us > 0 {
            ctr.delays.fetch_add(1, Ordering::Relaxed);
            std::thread::sleep(Duration::from_micros(us));
        }
    }

    fn jitter(&self, slot: &Slot, pol: &Policy, ctr: &JobCounters) {
        if pol.jitter_permille == 0 && pol.yield_permille == 0 {
            return;
        }
        let n = slot.seq.fetch_add(1, Ordering::Relaxed);
        let r = mix(pol.seed ^ crate::rng::hash_str(&slot.name), n);
        if pol.yield_permille > 0 && (r >> 20) % 1000 < pol.yield_permille {
            std::thread::yield_now();
        }
        if pol.jitter_permille > 0 && r % 1000 < pol.jitter_permille {
            let us = (r >> 32) % (pol.jitter_max_us.max(1));
            self.delay(slot, pol, us, ctr);
        }
    }
}

impl Observer for Obs {
    fn event(&self, event: &Event) {
        self.events.fetch_add(1, Ordering::Relaxed);
        let slot = self.slot();
        let pol = self.policy.lock().unwrap().clone();
        let ctr = self.counters.lock().unwrap().clone();
        match event {
            Event::WorkerStart { coord } => {
                *slot.coord.lock().unwrap() = Some(c3(*coord));
                slot.state.store(ST_RUNNING, Ordering::SeqCst);
                ctr.workers_started.fetch_add(1, Ordering::SeqCst);
            }
            Event::WorkerEnd { panicked, .. } => {
                slot.state.store(ST_ENDED, Ordering::SeqCst);
                ctr.workers_ended.fetch_add(1, Ordering::SeqCst);
                if *panicked {
                    ctr.workers_panicked.fetch_add(1, Ordering::SeqCst);
                }
            }
            Event::NetStart { kind, demux } => {
                *slot.net.lock().unwrap() = Some((*kind, *demux));
                slot.state.store(ST_RUNNING, Ordering::SeqCst);
                ctr.net_started.fetch_add(1, Ordering::SeqCst);
            }
            Event::NetEnd { .. } => {
                slot.state.store(ST_ENDED, Ordering::SeqCst);
                ctr.net_ended.fetch_add(1, Ordering::SeqCst);
            }
            Event::NetIdle { .. } => {
                slot.state.store(ST_NET_IDLE, Ordering::SeqCst);
            }
            Event::NetBusy { .. } => {
                slot.state.store(ST_RUNNING, Ordering::SeqCst);
                if pol.slow_net_us > 0 {
                    self.delay(&slot, &pol, pol.slow_net_us, &ctr);
                }
            }
            Event::SendEnter {
                from,
                to,
                remote,
                batch,
            } => {
                ctr.sends.fetch_add(1, Ordering::Relaxed);
                ctr.elems_sent.fetch_add(batch.len() as u64, Ordering::Relaxed);
                if self.log_links.load(Ordering::Relaxed) != 0 {
                    slot.log.lock().unwrap().push(LinkEv::Send {
                        from: c3(*from),
                        to: ep(*to),
                        remote: *remote,
                        elems: batch.digests(),
                    });
                }
                // perturbation happens before the thread is marked as blocked
                self.jitter(&slot, &pol, &ctr);
                for (b, us) in &pol.slow_send_blocks {
                    if *b == from.block_id {
                        self.delay(&slot, &pol, *us, &ctr);
                    }
                }
                for (c, us) in &pol.slow_send_replicas {
                    if *c == c3(*from) {
                        self.delay(&slot, &pol, *us, &ctr);
                    }
                }
                *slot.target.lock().unwrap() = Some((ep(*to), None));
                slot.state.store(ST_SEND, Ordering::SeqCst);
            }
            Event::SendExit { .. } => {
                slot.state.store(ST_RUNNING, Ordering::SeqCst);
            }
            Event::RecvEnter {
                at,
                other,
                blocking,
            } => {
                *slot.target.lock().unwrap() = Some((ep(*at), other.map(ep)));
                slot.state.store(
                    if *blocking { ST_RECV } else { ST_RECV_POLL },
                    Ordering::SeqCst,
                );
            }
            Event::Recv { at, batch } => {
                slot.state.store(ST_RUNNING, Ordering::SeqCst);
                ctr.recvs.fetch_add(1, Ordering::Relaxed);
                if self.log_links.load(Ordering::Relaxed) != 0 {
                    slot.log.lock().unwrap().push(LinkEv::Recv {
                        at: ep(*at),
                        from: c3(batch.sender()),
                        elems: batch.digests(),
                    });
                }
                self.jitter(&slot, &pol, &ctr);
                for (b, us) in &pol.slow_recv_blocks {
                    if *b == at.coord.block_id {
                        self.delay(&slot, &pol, *us, &ctr);
                    }
                }
                for (b, h, us) in &pol.slow_recv_links {
                    if *b == batch.sender().block_id && *h == at.coord.host_id {
                        self.delay(&slot, &pol, *us, &ctr);
                    }
                }
            }
            Event::RecvNone { .. } => {
                slot.state.store(ST_RUNNING, Ordering::SeqCst);
            }
            Event::StateWaitEnter { wanted, current } => {
                ctr.state_waits.fetch_add(1, Ordering::Relaxed);
                if current < wanted {
                    ctr.state_waits_blocked.fetch_add(1, Ordering::Relaxed);
                }
                slot.state.store(ST_STATE_WAIT, Ordering::SeqCst);
            }
            Event::StateWaitExit => {
                slot.state.store(ST_RUNNING, Ordering::SeqCst);
            }
            Event::StateSet { .. } => {
                ctr.state_sets.fetch_add(1, Ordering::Relaxed);
            }
            Event::BarrierEnter { .. } => {
                slot.state.store(ST_BARRIER, Ordering::SeqCst);
            }
            Event::BarrierExit { .. } => {
                slot.state.store(ST_RUNNING, Ordering::SeqCst);
            }
        }
    }
}

pub fn state_name(s: u8) -> &'static str {
    match s {
        ST_RUNNING => "running",
        ST_SEND => "blocked-send",
        ST_RECV => "blocked-recv",
        ST_RECV_POLL => "recv-poll",
        ST_STATE_WAIT => "state-wait",
        ST_BARRIER => "barrier",
        ST_NET_IDLE => "net-idle",
        ST_ENDED => "ended",
        _ => "?",
    }
}

/// Merge the per-thread link logs into per-link sequences.
/// Returns (sent[(from, to)] , received[(from, at)]).
#[allow(clippy::type_complexity)]
pub fn per_link(
    log: &JobLog,
) -> (
    HashMap<(C3, Ep), (bool, Vec<ElemDigest>, u64)>,
    HashMap<(C3, Ep), (Vec<ElemDigest>, u64)>,
) {
    let mut sent: HashMap<(C3, Ep), (bool, Vec<ElemDigest>, u64)> = HashMap::new();
    let mut recv: HashMap<(C3, Ep), (Vec<ElemDigest>, u64)> = HashMap::new();
    for (_, evs) in &log.link_events {
        for ev in evs {
            match ev {
                LinkEv::Send {
                    from,
                    to,
                    remote,
                    elems,
                } => {
                    let e = sent.entry((*from, *to)).or_insert((*remote, Vec::new(), 0));
                    e.1.extend_from_slice(elems);
                    e.2 += 1;
                }
                LinkEv::Recv { at, from, elems } => {
                    let e = recv.entry((*from, *at)).or_insert((Vec::new(), 0));
                    e.0.extend_from_slice(elems);
                    e.1 += 1;
                }
            }
        }
    }
    (sent, recv)
}
