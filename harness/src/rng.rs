//! Small deterministic PRNG (splitmix64) so that every case is replayable from (seed, shard, index).

#[derive(Clone, Debug)]
pub struct Rng(pub u64);

impl Rng {
    pub fn new(seed: u64) -> Self {
        Rng(seed ^ 0x9E37_79B9_7F4A_7C15)
    }

    /// Independent stream derived from this one and a label.
    pub fn fork(&self, label: u64) -> Rng {
        let mut r = Rng(self.0 ^ label.wrapping_mul(0xD6E8_FEB8_6659_FD93));
        r.next_u64();
        r.next_u64();
        r
    }

    pub fn next_u64(&mut self) -> u64 {
        self.0 = self.0.wrapping_add(0x9E37_79B9_7F4A_7C15);
        let mut z = self.0;
        z = (z ^ (z >> 30)).wrapping_mul(0xBF58_476D_1CE4_E5B9);
        z = (z ^ (z >> 27)).wrapping_mul(0x94D0_49BB_1331_11EB);
        z ^ (z >> 31)
    }

    /// Uniform in [0, n).
    pub fn below(&mut self, n: u64) -> u64 {
        if n == 0 {
            0
        } else {
            self.next_u64() % n
        }
    }

    /// Uniform in [lo, hi] (inclusive).
    pub fn range(&mut self, lo: i64, hi: i64) -> i64 {
        if hi <= lo {
            return lo;
        }
        lo + (self.next_u64() % ((hi - lo + 1) as u64)) as i64
    }

    pub fn usize(&mut self, lo: usize, hi: usize) -> usize {
        self.range(lo as i64, hi as i64) as usize
    }

    pub fn chance(&mut self, num: u64, den: u64) -> bool {
        self.below(den) < num
    }

    pub fn pick<'a, T>(&mut self, xs: &'a [T]) -> &'a T {
        &xs[self.below(xs.len() as u64) as usize]
    }

    pub fn shuffle<T>(&mut self, xs: &mut [T]) {
        for i in (1..xs.len()).rev() {
            let j = self.below(i as u64 + 1) as usize;
            xs.swap(i, j);
        }
    }
}

pub fn mix(a: u64, b: u64) -> u64 {
    let mut z = a
        .wrapping_mul(0x9E37_79B9_7F4A_7C15)
        .wrapping_add(b)
        .wrapping_add(0x632B_E59B_D9B4_E019);
    z = (z ^ (z >> 32)).wrapping_mul(0xD6E8_FEB8_6659_FD93);
    z = (z ^ (z >> 32)).wrapping_mul(0xD6E8_FEB8_6659_FD93);
    z ^ (z >> 32)
}

pub fn hash_str(s: &str) -> u64 {
    s.bytes().fold(0xcbf2_9ce4_8422_2325u64, |h, b| {
        (h ^ b as u64).wrapping_mul(0x0100_0000_01b3)
    })
}
