//! Running one job of the real engine under a configuration, a perturbation policy and a watchdog.
//!
//! A remote configuration with H hosts is run as H threads of this process, each with its own
//! `StreamContext` and `host_id`, talking over loopback TCP exactly as separate processes would.

use std::panic::{catch_unwind, AssertUnwindSafe};
use std::sync::atomic::{AtomicU64, Ordering};
use std::sync::mpsc;
use std::time::{Duration, Instant};

use renoir::config::{ConfigBuilder, HostConfig};
use renoir::{RuntimeConfig, StreamContext};
use serde_json::{json, Value};

use crate::obs::{self, obs, JobLog, Policy, ThreadSnap};

#[derive(Debug, Clone, PartialEq, Eq, Hash)]
pub enum Layout {
    Local(u64),
    /// Cores per host.
    Remote(Vec<u64>),
}

impl Layout {
    pub fn hosts(&self) -> usize {
        match self {
            Layout::Local(_) => 1,
            Layout::Remote(h) => h.len(),
        }
    }
    pub fn total_cores(&self) -> u64 {
        match self {
            Layout::Local(p) => *p,
            Layout::Remote(h) => h.iter().sum(),
        }
    }
    pub fn cores(&self) -> Vec<u64> {
        match self {
            Layout::Local(p) => vec![*p],
            Layout::Remote(h) => h.clone(),
        }
    }
    pub fn name(&self) -> String {
        match self {
            Layout::Local(p) => format!("local({p})"),
            Layout::Remote(h) => format!("remote{h:?}"),
        }
    }
    pub fn is_sequential(&self) -> bool {
        self.total_cores() == 1
    }
}

static JOB_COUNTER: AtomicU64 = AtomicU64::new(0);
static SHARD: AtomicU64 = AtomicU64::new(0);

pub fn set_shard(shard: u64) {
    SHARD.store(shard, Ordering::SeqCst);
}

/// Configurations for every host of the layout; addresses are unique per (shard, job).
pub fn configs(layout: &Layout) -> Vec<RuntimeConfig> {
    match layout {
        Layout::Local(p) => vec![RuntimeConfig::local(*p).unwrap()],
        Layout::Remote(cores) => {
            let job = JOB_COUNTER.fetch_add(1, Ordering::SeqCst);
            let shard = SHARD.load(Ordering::SeqCst);
            // addresses 127.a.b.host: `a` from the shard (shards of one check run concurrently),
            // `b` from the job counter; the base port from the process id, so that two different
            // checks running at the same time on this machine do not meet on the same sockets
            let a = 1 + (shard % 250);
            let b = 1 + (job % 250);
            let port = 20000 + ((std::process::id() as u64 % 400) * 100) as u16;
            let hosts: Vec<HostConfig> = cores
                .iter()
                .enumerate()
                .map(|(h, &c)| HostConfig {
                    address: format!("127.{a}.{b}.{}", h + 1),
                    base_port: port,
                    num_cores: c,
                    ssh: Default::default(),
                    perf_path: None,
                })
                .collect();
            (0..cores.len())
                .map(|h| {
                    ConfigBuilder::new_remote()
                        .add_hosts(&hosts)
                        .host_id(h as u64)
                        .build()
                        .unwrap()
                })
                .collect()
        }
    }
}

#[derive(Debug)]
pub enum HostOutcome<R> {
    Ok(R),
    Panicked(String),
}

#[derive(Debug, Clone, PartialEq, Eq)]
pub enum JobEnd {
    /// `execute_blocking` returned (or panicked) on every host.
    Returned,
    /// Quiescence certificate: every live engine thread parked, no event for three snapshots,
    /// and (from /proc) every thread of the process asleep in a wait only another party can end,
    /// with no CPU consumed in between.
    Deadlocked,
    /// Watchdog fired while threads were still running: nothing can be concluded.
    TimedOut,
}

pub struct JobResult<R> {
    pub end: JobEnd,
    pub hosts: Vec<Option<HostOutcome<R>>>,
    pub log: JobLog,
    pub wall: Duration,
    /// Thread census at the moment of the verdict (only for Deadlocked / TimedOut).
    pub census: Vec<ThreadSnap>,
    /// Engine threads that had not ended after every host returned.
    pub leaked_threads: Vec<ThreadSnap>,
    /// True if the leak is a stable fact (all of them parked, no engine event across 8 snapshots).
    pub leak_certified: bool,
}

impl<R> JobResult<R> {
    pub fn all_ok(&self) -> bool {
        self.end == JobEnd::Returned
            && self
                .hosts
                .iter()
                .all(|h| matches!(h, Some(HostOutcome::Ok(_))))
    }
    pub fn any_panicked(&self) -> bool {
        self.hosts
            .iter()
            .any(|h| matches!(h, Some(HostOutcome::Panicked(_))))
    }
    pub fn panic_messages(&self) -> Vec<String> {
        self.hosts
            .iter()
            .filter_map(|h| match h {
                Some(HostOutcome::Panicked(m)) => Some(m.clone()),
                _ => None,
            })
            .collect()
    }
    pub fn census_json(&self) -> Value {
        census_json(&self.census)
    }
}

pub fn census_json(c: &[ThreadSnap]) -> Value {
    Value::Array(
        c.iter()
            .filter(|t| t.state != obs::ST_ENDED)
            .map(|t| {
                json!({
                    "thread": t.name,
                    "state": obs::state_name(t.state),
                    "coord": t.coord.map(|c| format!("b{}.h{}.r{}", c.0, c.1, c.2)),
                    "net": t.net.map(|(k, d)| format!("{k:?} b{}.h{}<-b{}", d.0, d.1, d.2)),
                    "target": t.target.map(|(a, b)| format!("{a:?} {b:?}")),
                })
            })
            .collect(),
    )
}

pub struct RunOpts {
    pub policy: Policy,
    pub log_links: bool,
    /// Wall-clock cap; when it fires the job is Deadlocked (with certificate) or TimedOut.
    pub watchdog: Duration,
    /// Minimum time without progress before trying to obtain a quiescence certificate.
    pub quiet: Duration,
}

impl Default for RunOpts {
    fn default() -> Self {
        RunOpts {
            policy: Policy::none(),
            log_links: false,
            watchdog: Duration::from_secs(120),
            quiet: Duration::from_secs(4),
        }
    }
}

fn panic_message(e: Box<dyn std::any::Any + Send>) -> String {
    if let Some(s) = e.downcast_ref::<&str>() {
        s.to_string()
    } else if let Some(s) = e.downcast_ref::<String>() {
        s.clone()
    } else {
        "<non-string panic>".to_string()
    }
}

fn all_parked(census: &[ThreadSnap]) -> bool {
    let live: Vec<_> = census
        .iter()
        .filter(|t| t.state != obs::ST_ENDED && (t.coord.is_some() || t.net.is_some()))
        .collect();
    !live.is_empty()
        && live.iter().all(|t| {
            matches!(
                t.state,
                obs::ST_SEND | obs::ST_RECV | obs::ST_STATE_WAIT | obs::ST_BARRIER | obs::ST_NET_IDLE
            )
        })
}

/// Process-level side of the quiescence certificate, independent of the hooks: every other
/// thread of this process is sleeping in a system call that only another party can end (futex,
/// accept, read, poll...), none is runnable, in uninterruptible I/O (page-fault stalls on a
/// loaded machine) or in a timed sleep (connection back-off), and none has consumed CPU since
/// the previous snapshot. Returns the per-thread CPU ticks for the next comparison, or None if
/// some thread is not quiescent. If /proc cannot be read the hook-level census decides alone.
fn proc_quiescent(prev: &mut Option<Vec<(u64, u64)>>) -> bool {
    if cfg!(miri) {
        return true;
    }
    let me: Option<u64> = std::fs::read_link("/proc/thread-self")
        .ok()
        .and_then(|p| p.file_name().and_then(|n| n.to_str().and_then(|n| n.parse().ok())));
    let Ok(dir) = std::fs::read_dir("/proc/self/task") else { return true };
    let mut now = Vec::new();
    for e in dir.flatten() {
        let Some(tid) = e.file_name().to_str().and_then(|n| n.parse::<u64>().ok()) else { continue };
        if Some(tid) == me {
            continue;
        }
        let Ok(stat) = std::fs::read_to_string(e.path().join("stat")) else { continue };
        // pid (comm) state ppid ... utime(14) stime(15): split after the last ')'
        let Some(rest) = stat.rfind(')').map(|i| &stat[i + 1..]) else { continue };
        let f: Vec<&str> = rest.split_whitespace().collect();
        if f.len() < 13 {
            continue;
        }
        if f[0] != "S" {
            *prev = None;
            return false;
        }
        let cpu = f[11].parse::<u64>().unwrap_or(0) + f[12].parse::<u64>().unwrap_or(0);
        let sys = std::fs::read_to_string(e.path().join("syscall")).unwrap_or_default();
        let nr = sys.split_whitespace().next().unwrap_or("").to_string();
        // futex, accept, accept4, read, recvfrom, recvmsg, poll, ppoll, epoll_wait, epoll_pwait
        const WAITING: [&str; 10] = ["202", "43", "288", "0", "45", "47", "7", "271", "232", "281"];
        if !sys.is_empty() && !WAITING.contains(&nr.as_str()) {
            *prev = None;
            return false;
        }
        now.push((tid, cpu));
    }
    now.sort();
    let same = match prev {
        Some(p) => *p == now,
        None => true,
    };
    *prev = Some(now);
    same
}

/// Run one job. `build` is called once per host, on that host's thread, with the host's context;
/// it builds the pipeline and returns a value (typically the sink handles); the context is then
/// executed and `finish` turns the handles into the host's result after `execute_blocking`
/// returned.
pub fn run_job<B, H, F, R>(layout: &Layout, opts: RunOpts, build: B, finish: F) -> JobResult<R>
where
    B: Fn(&StreamContext, usize) -> H + Sync,
    F: Fn(H, usize) -> R + Sync,
    R: Send,
{
    let o = obs();
    o.begin_job(opts.policy.clone(), opts.log_links);
    let cfgs = configs(layout);
    let n = cfgs.len();
    let started = Instant::now();
    let (tx, rx) = mpsc::channel::<(usize, HostOutcome<R>)>();
    let mut hosts: Vec<Option<HostOutcome<R>>> = (0..n).map(|_| None).collect();
    let mut end = JobEnd::Returned;
    let mut census = Vec::new();
    let mut leaked = Vec::new();
    let mut leak_certified = false;

    std::thread::scope(|scope| {
        let mut handles = Vec::new();
        for (h, cfg) in cfgs.into_iter().enumerate() {
            let tx = tx.clone();
            let build = &build;
            let finish = &finish;
            handles.push(
                std::thread::Builder::new()
                    .name(format!("host-{h}"))
                    .spawn_scoped(scope, move || {
                        let r = catch_unwind(AssertUnwindSafe(|| {
                            let ctx = StreamContext::new(cfg);
                            let handles = build(&ctx, h);
                            ctx.execute_blocking();
                            finish(handles, h)
                        }));
                        let _ = tx.send((
                            h,
                            match r {
                                Ok(r) => HostOutcome::Ok(r),
                                Err(e) => HostOutcome::Panicked(panic_message(e)),
                            },
                        ));
                    })
                    .unwrap(),
            );
        }
        drop(tx);

        let mut got = 0;
        let mut last_events = o.events.load(Ordering::SeqCst);
        let mut last_progress = Instant::now();
        let mut quiet_snaps = 0u32;
        let mut cpu_prev: Option<Vec<(u64, u64)>> = None;
        while got < n {
            match rx.recv_timeout(Duration::from_millis(250)) {
                Ok((h, out)) => {
                    hosts[h] = Some(out);
                    got += 1;
                    last_progress = Instant::now();
                    quiet_snaps = 0;
                }
                Err(mpsc::RecvTimeoutError::Timeout) => {
                    let ev = o.events.load(Ordering::SeqCst);
                    if ev != last_events {
                        last_events = ev;
                        last_progress = Instant::now();
                        quiet_snaps = 0;
                    } else if last_progress.elapsed() >= opts.quiet {
                        // no event for `quiet`: take a snapshot; three consecutive all-parked
                        // snapshots (>= 1 s apart, no event in between) make a certificate
                        let snap = o.snapshot();
                        if all_parked(&snap) && proc_quiescent(&mut cpu_prev) {
                            quiet_snaps += 1;
                            census = snap;
                            if quiet_snaps >= 3 {
                                end = JobEnd::Deadlocked;
                                break;
                            }
                            std::thread::sleep(Duration::from_millis(1000));
                        } else {
                            quiet_snaps = 0;
                            cpu_prev = None;
                        }
                    }
                    if started.elapsed() > opts.watchdog {
                        census = o.snapshot();
                        end = JobEnd::TimedOut;
                        break;
                    }
                }
                Err(mpsc::RecvTimeoutError::Disconnected) => break,
            }
        }
        if end != JobEnd::Returned {
            // The engine threads are parked for ever: this process cannot continue. The caller
            // is expected to report and exit; leak the host threads by never joining them.
            // (std::thread::scope would join: so we must exit from inside.)
            let hook = crate::run::DEADLOCK_HOOK.with(|h| h.borrow_mut().take());
            if let Some(rep) = crate::report::global() {
                match hook {
                    Some(f) => f(&end, &census, rep),
                    None => {
                        let e = end.clone();
                        let c = census_json(&census);
                        rep.case(crate::report::Verdict::Inconclusive, None, || serde_json::json!({"error": format!("a job did not return: {e:?}"), "census": c}));
                    }
                }
                rep.finish_with(Some(crate::report::RESUME_FROM.load(Ordering::SeqCst)));
            }
            eprintln!("job did not return ({end:?}); exiting shard");
            std::process::exit(3);
        }
        for h in handles {
            let _ = h.join();
        }
        // every host returned: all engine threads must end. "Still alive" is only a fact about
        // the engine when it is stable: either every thread ends, or the remaining ones are all
        // parked and no engine event occurs across several snapshots (certificate), or the grace
        // period expires while things still move (then nothing is concluded).
        let deadline = Instant::now() + Duration::from_secs(90);
        let mut last_events = o.events.load(Ordering::SeqCst);
        let mut quiet = 0u32;
        let mut cpu_prev2: Option<Vec<(u64, u64)>> = None;
        loop {
            let snap = o.snapshot();
            let live: Vec<_> = snap
                .into_iter()
                .filter(|t| t.state != obs::ST_ENDED && (t.coord.is_some() || t.net.is_some()))
                .collect();
            if live.is_empty() {
                break;
            }
            let ev = o.events.load(Ordering::SeqCst);
            if ev == last_events && all_parked(&live) && proc_quiescent(&mut cpu_prev2) {
                quiet += 1;
            } else {
                quiet = 0;
                cpu_prev2 = None;
                last_events = ev;
            }
            if quiet >= 8 {
                // 8 consecutive quiet snapshots, 0.5 s apart
                leaked = live;
                leak_certified = true;
                break;
            }
            if Instant::now() > deadline {
                leaked = live;
                break;
            }
            std::thread::sleep(Duration::from_millis(if quiet > 0 { 500 } else { 5 }));
        }
    });

    let log = o.end_job();
    JobResult {
        end,
        hosts,
        log,
        wall: started.elapsed(),
        census,
        leaked_threads: leaked,
        leak_certified,
    }
}

type DeadlockHook = Box<dyn FnOnce(&JobEnd, &[ThreadSnap], &mut crate::report::Report)>;

thread_local! {
    /// Called (on the thread that runs `run_job`) right before the shard exits because a job did
    /// not return; used to flush the report with the witness.
    pub static DEADLOCK_HOOK: std::cell::RefCell<Option<DeadlockHook>> = const { std::cell::RefCell::new(None) };
}

pub fn on_no_return(f: impl FnOnce(&JobEnd, &[ThreadSnap], &mut crate::report::Report) + 'static) {
    DEADLOCK_HOOK.with(|h| *h.borrow_mut() = Some(Box::new(f)));
}

pub fn clear_no_return() {
    DEADLOCK_HOOK.with(|h| *h.borrow_mut() = None);
}
