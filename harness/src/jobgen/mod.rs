//! Random programs over a uniform record type, built on the real engine with a probe after every
//! operator, and evaluated by a sequential reference interpreter.

pub mod build;
pub mod check;
pub mod gen;
pub mod refsem;
pub mod types;
