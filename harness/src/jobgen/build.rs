//! Builds a `Program` on a real `StreamContext`, with a recording probe after every operator.

use std::collections::HashMap;
use std::fmt::Display;
use std::num::Wrapping;
use std::sync::{Arc, Mutex};

use renoir::operator::window::CountWindow;
use renoir::operator::{Operator, StreamElement};
use renoir::prelude::*;
use renoir::structure::BlockStructure;
use renoir::{ExecutionMetadata, IterationStateHandle};

use super::types::*;
use crate::probe::{BStream, BoxExt, Boxed, RecProbe, TraceSink};
use crate::rng::mix;

pub const RAW_FLAG: u32 = 0x4000_0000;

pub fn body_probe_id(parent: u32, j: usize) -> u32 {
    parent * 64 + j as u32 + 1
}

/// Keeps, on each replica, only the elements of "its" partition (by id): normalises a broadcast.
pub struct KeepMine {
    prev: Boxed<Rec>,
    gid: u64,
    n: u64,
}

impl Clone for KeepMine {
    fn clone(&self) -> Self {
        KeepMine {
            prev: self.prev.clone(),
            gid: self.gid,
            n: self.n,
        }
    }
}

impl Display for KeepMine {
    fn fmt(&self, f: &mut std::fmt::Formatter<'_>) -> std::fmt::Result {
        write!(f, "{} -> KeepMine", self.prev)
    }
}

impl Operator for KeepMine {
    type Out = Rec;
    fn setup(&mut self, metadata: &mut ExecutionMetadata) {
        self.prev.setup(metadata);
        self.gid = metadata.global_id;
        self.n = metadata.replicas.len() as u64;
    }
    fn next(&mut self) -> StreamElement<Rec> {
        loop {
            let el = self.prev.next();
            match &el {
                StreamElement::Item(r) | StreamElement::Timestamped(r, _) => {
                    if mix(r.id, 0xB0AD) % self.n.max(1) == self.gid {
                        return el;
                    }
                }
                _ => return el,
            }
        }
    }
    fn structure(&self) -> BlockStructure {
        self.prev.structure()
    }
}

/// Where to inject a panic: at probe `probe`, on the replica with global id `gid` (modulo the
/// number of replicas), when it is about to forward its `at`-th data element (1-based), or, with
/// `at == 0`, its FlushAndRestart.
#[derive(Clone, Debug)]
pub struct FaultSpec {
    pub probe: u32,
    pub gid: u64,
    pub at: usize,
    /// filled when the fault fires: (replica, id of the element that was not forwarded)
    pub fired: Arc<Mutex<Option<(crate::obs::C3, u64)>>>,
}

struct FaultProbe {
    spec: FaultSpec,
    ctx: Option<crate::probe::ProbeCtx>,
    count: usize,
}

impl crate::probe::Probe<Rec> for FaultProbe {
    fn fork(&self) -> Box<dyn crate::probe::Probe<Rec>> {
        Box::new(FaultProbe { spec: self.spec.clone(), ctx: None, count: 0 })
    }
    fn setup(&mut self, ctx: crate::probe::ProbeCtx) {
        self.ctx = Some(ctx);
    }
    fn see(&mut self, el: &StreamElement<Rec>) {
        let Some(ctx) = self.ctx else { return };
        if ctx.global_id != self.spec.gid % ctx.replicas.max(1) {
            return;
        }
        let hit = match el {
            StreamElement::Item(r) | StreamElement::Timestamped(r, _) => {
                self.count += 1;
                (self.spec.at != 0 && self.count == self.spec.at).then_some(r.id)
            }
            StreamElement::FlushAndRestart => (self.spec.at == 0).then_some(0),
            _ => None,
        };
        if let Some(id) = hit {
            *self.spec.fired.lock().unwrap() = Some((ctx.coord, id));
            panic!("injected user-function fault at probe {} replica {:?}", self.spec.probe, ctx.coord);
        }
    }
}

#[derive(Clone)]
pub struct BuildCtx {
    pub traces: TraceSink,
    pub for_each: Arc<Mutex<HashMap<Var, Vec<Rec>>>>,
    pub probes: bool,
    pub fault: Option<FaultSpec>,
    /// sink handles are also stored here (so that they survive a panicking execute_blocking)
    pub handles: Option<Arc<Mutex<Vec<(usize, Var, SinkKind, SinkHandle)>>>>,
}

impl BuildCtx {
    fn probe(&self, s: BStream<Rec>, id: u32, label: &str) -> BStream<Rec> {
        if let Some(f) = &self.fault {
            if f.probe == id {
                return s.probed(Box::new(FaultProbe { spec: f.clone(), ctx: None, count: 0 }));
            }
        }
        if self.probes {
            s.probed(RecProbe::new(id, label, &self.traces))
        } else {
            s
        }
    }
}

pub enum SinkHandle {
    Vec(StreamOutput<Vec<Rec>>),
    Count(StreamOutput<usize>),
    Channel(flume::Receiver<Rec>),
    ForEach,
}

#[derive(Debug, Clone)]
pub struct SinkResult {
    pub var: Var,
    pub kind: SinkKind,
    /// `Some` if this host's handle held a result.
    pub data: Option<Vec<Rec>>,
    pub count: Option<usize>,
    /// For channel sinks: did the channel disconnect after the job?
    pub channel_closed: Option<bool>,
}

pub fn op_label(op: &UOp) -> String {
    let s = format!("{op:?}");
    s.split(|c: char| !c.is_alphanumeric()).next().unwrap_or("?").to_string()
}

fn build_chain(
    mut s: BStream<Rec>,
    ops: &[UOp],
    parent: u32,
    state: Option<IterationStateHandle<LState>>,
    cx: &BuildCtx,
) -> BStream<Rec> {
    for (j, op) in ops.iter().enumerate() {
        let id = body_probe_id(parent, j);
        s = build_op(s, op, id, state.clone(), cx);
    }
    s
}

pub fn build_op(
    s: BStream<Rec>,
    op: &UOp,
    id: u32,
    state: Option<IterationStateHandle<LState>>,
    cx: &BuildCtx,
) -> BStream<Rec> {
    let salt = id as u64;
    let label = op_label(op);
    let out: BStream<Rec> = match op.clone() {
        UOp::Map { mul, add } => s.map(move |r| f_map(r, mul, add)).boxed(),
        UOp::Filter { m, r } => s.filter(move |x| f_filter(x, m, r)).boxed(),
        UOp::FlatMap { c } => s.flat_map(move |r| f_flat_map(r, c)).boxed(),
        UOp::ReKey { m } => s.map(move |r| f_rekey(r, m)).boxed(),
        UOp::MapState => {
            let st = state.clone().expect("MapState outside a loop body");
            s.map(move |r| f_map_state(r, st.get())).boxed()
        }
        UOp::Shuffle => s.shuffle().boxed(),
        UOp::Replicate(r) => s.replication(r.to_engine()).boxed(),
        UOp::Batch(b) => s.batch_mode(b.to_engine()),
        UOp::Broadcast => {
            let raw = cx.probe(s.broadcast().boxed(), id | RAW_FLAG, "BroadcastRaw");
            raw.add_operator(|prev| KeepMine { prev, gid: 0, n: 1 }).boxed()
        }
        UOp::GroupByFold(a) => s
            .group_by(|r: &Rec| r.k)
            .fold(agg_init(a), move |acc, r: Rec| agg_step(a, acc, &r))
            .map(move |(k, v)| keyed_result(*k, v, salt))
            .drop_key()
            .boxed(),
        UOp::GroupByReduce(a) => s
            .group_by(|r: &Rec| r.k)
            .reduce(move |x, y| rec_reduce(a, x, y))
            .map(move |(k, r)| keyed_result(*k, r.v, salt ^ r.id))
            .drop_key()
            .boxed(),
        UOp::GroupByFold2(a) => s
            .group_by_fold(
                |r: &Rec| r.k,
                agg_init(a),
                move |acc, r: Rec| agg_step(a, acc, &r),
                move |acc, o| agg_merge(a, acc, o),
            )
            .map(move |(k, v)| keyed_result(*k, v, salt))
            .drop_key()
            .boxed(),
        UOp::GroupByReduce2(a) => s
            .group_by_reduce(|r: &Rec| r.k, move |x, y| rec_reduce(a, x, y))
            .map(move |(k, r)| keyed_result(*k, r.v, salt ^ r.id))
            .drop_key()
            .boxed(),
        UOp::GroupBySum => s
            .group_by_sum(|r: &Rec| r.k, |r: Rec| Wrapping(r.v))
            .map(move |(k, v)| keyed_result(*k, v.0, salt))
            .drop_key()
            .boxed(),
        UOp::GroupByCount => s
            .group_by_count(|r: &Rec| r.k)
            .map(move |(k, v)| keyed_result(*k, v as i64, salt))
            .drop_key()
            .boxed(),
        UOp::GroupByAvg => s
            .group_by_avg(|r: &Rec| r.k, |r: &Rec| r.v.rem_euclid(1000) as f64)
            .map(move |(k, v)| keyed_result(*k, v.to_bits() as i64, salt))
            .drop_key()
            .boxed(),
        UOp::GroupByMin => s
            .group_by_min_element(|r: &Rec| r.k, |r: &Rec| r.v)
            .map(move |(k, r)| keyed_result(*k, r.v, salt))
            .drop_key()
            .boxed(),
        UOp::GroupByMax => s
            .group_by_max_element(|r: &Rec| r.k, |r: &Rec| r.v)
            .map(move |(k, r)| keyed_result(*k, r.v, salt))
            .drop_key()
            .boxed(),
        UOp::Fold(a) => s
            .fold(agg_init(a), move |acc, r: Rec| agg_step(a, acc, &r))
            .map(move |v| global_result(v, salt))
            .boxed(),
        UOp::Reduce(a) => s
            .reduce(move |mut x, y| {
                rec_reduce(a, &mut x, y);
                x
            })
            .map(move |r| global_result(r.v, salt ^ r.id ^ ((r.k as u64) << 40)))
            .boxed(),
        UOp::FoldAssoc(a) => s
            .fold_assoc(
                agg_init(a),
                move |acc, r: Rec| agg_step(a, acc, &r),
                move |acc, o| agg_merge(a, acc, o),
            )
            .map(move |v| global_result(v, salt))
            .boxed(),
        UOp::ReduceAssoc(a) => s
            .reduce_assoc(move |mut x, y| {
                rec_reduce(a, &mut x, y);
                x
            })
            .map(move |r| global_result(r.v, salt ^ r.id ^ ((r.k as u64) << 40)))
            .boxed(),
        UOp::Unique { m } => s.map(move |r| f_unique_pre(r, m)).unique_assoc().boxed(),
        UOp::RichMapCount => s
            .group_by(|r: &Rec| r.k)
            .rich_map({
                let mut c = 0i64;
                move |(k, _r): (&u32, Rec)| {
                    c += 1;
                    keyed_result(*k, c, c as u64)
                }
            })
            .drop_key()
            .boxed(),
        UOp::CountWindow { n, s: slide, exact, content } => {
            let w = s.group_by(|r: &Rec| r.k).window(CountWindow::new(n, slide, exact));
            if content {
                w.fold(0i64, |a: &mut i64, r: Rec| *a = a.wrapping_mul(31).wrapping_add(r.v))
                    .map(|(k, v)| keyed_result(*k, v, v as u64))
                    .drop_key()
                    .boxed()
            } else {
                w.count()
                    .map(|(k, v)| keyed_result(*k, v as i64, v as u64))
                    .drop_key()
                    .boxed()
            }
        }
        UOp::MapMemo { m } => s
            .map_memo_by(move |r: Rec| f_memo(f_memo_key(&r, m)), move |r: &Rec| f_memo_key(r, m), 16)
            .boxed(),
        UOp::SplitZip { m, m2 } => {
            let mut parts = s.split(2).into_iter();
            let a = parts.next().unwrap();
            let b = parts.next().unwrap();
            a.filter(move |r: &Rec| r.v.rem_euclid(m) != 0)
                .zip(b.filter(move |r: &Rec| r.v.rem_euclid(m2) != 1))
                .map(|_| f_zip_anon())
                .boxed()
        }
        UOp::SplitJoin { kind, local, m } => {
            let mut parts = s.split(2).into_iter();
            let a = parts.next().unwrap();
            let b = parts.next().unwrap().map(move |r| f_rekey(r, m));
            let kf = |x: &Rec| x.k;
            let inner = |(_, (l, r)): (u32, (Rec, Rec))| f_join_inner(&l, &r);
            let left = |(_, (l, r)): (u32, (Rec, Option<Rec>))| match r {
                Some(r) => f_join_inner(&l, &r),
                None => f_join_left_only(&l),
            };
            let outer = |(_, (l, r)): (u32, (Option<Rec>, Option<Rec>))| match (l, r) {
                (Some(l), Some(r)) => f_join_inner(&l, &r),
                (Some(l), None) => f_join_left_only(&l),
                (None, Some(r)) => f_join_right_only(&r),
                (None, None) => unreachable!(),
            };
            match (local, kind) {
                (JoinLocal::Hash, JoinKind::Inner) => a.join_with(b, kf, kf).ship_hash().local_hash().inner().unkey().map(inner).boxed(),
                (JoinLocal::Hash, JoinKind::Left) => a.join_with(b, kf, kf).ship_hash().local_hash().left().unkey().map(left).boxed(),
                (JoinLocal::Hash, JoinKind::Outer) => a.join_with(b, kf, kf).ship_hash().local_hash().outer().unkey().map(outer).boxed(),
                (JoinLocal::SortMerge, JoinKind::Inner) => a.join_with(b, kf, kf).ship_hash().local_sort_merge().inner().unkey().map(inner).boxed(),
                (JoinLocal::SortMerge, JoinKind::Left) => a.join_with(b, kf, kf).ship_hash().local_sort_merge().left().unkey().map(left).boxed(),
                (JoinLocal::SortMerge, JoinKind::Outer) => a.join_with(b, kf, kf).ship_hash().local_sort_merge().outer().unkey().map(outer).boxed(),
            }
        }
        UOp::Replay { rounds, body, stop_m, stop_r } => {
            let init = LState::default();
            let cx2 = cx.clone();
            s.replay(
                rounds,
                init,
                move |s, st| build_chain(s.boxed(), &body, id, Some(st), &cx2),
                |d: &mut i64, r: Rec| *d = d.wrapping_add(r.v),
                |st: &mut LState, d: i64| st.acc = st.acc.wrapping_add(d),
                move |st: &mut LState| loop_cond(st, stop_m, stop_r),
            )
            .map(move |st| f_state_rec(&st, salt))
            .boxed()
        }
    };
    if matches!(op, UOp::Batch(_)) {
        return out;
    }
    cx.probe(out, id, &label)
}

/// Build the whole program on `ctx`; returns the sink handles of this host.
pub fn build_program(
    ctx: &StreamContext,
    p: &Program,
    cx: &BuildCtx,
) -> Vec<(Var, SinkKind, SinkHandle)> {
    let mut env: HashMap<Var, BStream<Rec>> = HashMap::new();
    let mut sinks = Vec::new();
    let bm = p.batch.to_engine();
    for st in &p.stmts {
        match st.clone() {
            Stmt::Source { out, parallel, input } => {
                let data = Arc::new(p.inputs[input as usize].clone());
                let s = if parallel {
                    let data = data.clone();
                    ctx.stream_par_iter(move |i: u64, n: u64| {
                        let len = data.len() as u64;
                        let chunk = (len + n - 1) / n.max(1);
                        let a = (i * chunk).min(len) as usize;
                        let b = ((i + 1) * chunk).min(len) as usize;
                        let d = data.clone();
                        (a..b).map(move |j| d[j].clone())
                    })
                    .batch_mode(bm)
                    .boxed()
                } else {
                    ctx.stream_iter((*data).clone().into_iter()).batch_mode(bm).boxed()
                };
                env.insert(out, cx.probe(s, out, "Source"));
            }
            Stmt::Op { inp, out, op } => {
                let s = env.remove(&inp).expect("var consumed twice");
                env.insert(out, build_op(s, &op, out, None, cx));
            }
            Stmt::Join { a, b, out, kind, ship, local } => {
                let l = env.remove(&a).unwrap();
                let r = env.remove(&b).unwrap();
                let kf = |x: &Rec| x.k;
                let inner = |(_, (l, r)): (u32, (Rec, Rec))| f_join_inner(&l, &r);
                let left = |(_, (l, r)): (u32, (Rec, Option<Rec>))| match r {
                    Some(r) => f_join_inner(&l, &r),
                    None => f_join_left_only(&l),
                };
                let outer = |(_, (l, r)): (u32, (Option<Rec>, Option<Rec>))| match (l, r) {
                    (Some(l), Some(r)) => f_join_inner(&l, &r),
                    (Some(l), None) => f_join_left_only(&l),
                    (None, Some(r)) => f_join_right_only(&r),
                    (None, None) => unreachable!("outer join produced (None, None)"),
                };
                let s: BStream<Rec> = match (ship, local, kind) {
                    (JoinShip::Hash, JoinLocal::Hash, JoinKind::Inner) => l.join_with(r, kf, kf).ship_hash().local_hash().inner().unkey().map(inner).boxed(),
                    (JoinShip::Hash, JoinLocal::Hash, JoinKind::Left) => l.join_with(r, kf, kf).ship_hash().local_hash().left().unkey().map(left).boxed(),
                    (JoinShip::Hash, JoinLocal::Hash, JoinKind::Outer) => l.join_with(r, kf, kf).ship_hash().local_hash().outer().unkey().map(outer).boxed(),
                    (JoinShip::Hash, JoinLocal::SortMerge, JoinKind::Inner) => l.join_with(r, kf, kf).ship_hash().local_sort_merge().inner().unkey().map(inner).boxed(),
                    (JoinShip::Hash, JoinLocal::SortMerge, JoinKind::Left) => l.join_with(r, kf, kf).ship_hash().local_sort_merge().left().unkey().map(left).boxed(),
                    (JoinShip::Hash, JoinLocal::SortMerge, JoinKind::Outer) => l.join_with(r, kf, kf).ship_hash().local_sort_merge().outer().unkey().map(outer).boxed(),
                    (JoinShip::BroadcastRight, JoinLocal::Hash, JoinKind::Inner) => l.join_with(r, kf, kf).ship_broadcast_right().local_hash().inner().map(inner).boxed(),
                    (JoinShip::BroadcastRight, JoinLocal::Hash, JoinKind::Left) => l.join_with(r, kf, kf).ship_broadcast_right().local_hash().left().map(left).boxed(),
                    (JoinShip::BroadcastRight, JoinLocal::SortMerge, JoinKind::Inner) => l.join_with(r, kf, kf).ship_broadcast_right().local_sort_merge().inner().map(inner).boxed(),
                    (JoinShip::BroadcastRight, JoinLocal::SortMerge, JoinKind::Left) => l.join_with(r, kf, kf).ship_broadcast_right().local_sort_merge().left().map(left).boxed(),
                    (JoinShip::BroadcastRight, _, JoinKind::Outer) => panic!("broadcast outer join does not exist"),
                    (JoinShip::KeyedMixed, _, _) => l
                        .group_by(kf)
                        .join(r.group_by_reduce(kf, |x, y| rec_reduce(Agg::Sum, x, y)))
                        .unkey()
                        .map(inner)
                        .boxed(),
                    (JoinShip::Keyed, _, JoinKind::Outer) => l.group_by(kf).join_outer(r.group_by(kf)).unkey().map(outer).boxed(),
                    (JoinShip::Keyed, _, _) => l.group_by(kf).join(r.group_by(kf)).unkey().map(inner).boxed(),
                };
                env.insert(out, cx.probe(s, out, "Join"));
            }
            Stmt::Merge { a, b, out } => {
                let l = env.remove(&a).unwrap();
                let r = env.remove(&b).unwrap();
                env.insert(out, cx.probe(l.merge(r).boxed(), out, "Merge"));
            }
            Stmt::Zip { a, b, out, positional } => {
                let l = env.remove(&a).unwrap();
                let r = env.remove(&b).unwrap();
                // which elements get paired is only defined for sequential inputs: otherwise the
                // pair is replaced by an anonymous record (the pair itself is still probed)
                let raw = l.zip(r).map(move |(a, b)| {
                    let o = if positional { f_zip(&a, &b) } else { f_zip_anon() };
                    (a, b, o)
                });
                // raw pairs probe: records the two ids of every pair (for "no element used twice")
                let raw = if cx.probes {
                    raw.probed(RecProbe::<(Rec, Rec, Rec)>::new(out | RAW_FLAG, "ZipPairs", &cx.traces))
                } else {
                    raw.boxed()
                };
                env.insert(out, cx.probe(raw.map(|t| t.2).boxed(), out, "Zip"));
            }
            Stmt::Split { inp, outs } => {
                let s = env.remove(&inp).unwrap();
                let parts = s.split(outs.len());
                for (o, part) in outs.iter().zip(parts) {
                    env.insert(*o, cx.probe(part.boxed(), *o, "SplitBranch"));
                }
            }
            Stmt::Route { inp, preds, outs } => {
                let s = env.remove(&inp).unwrap();
                let mut rb = s.route();
                for p in &preds {
                    rb = rb.add_route(ROUTE_PREDS[*p]);
                }
                for (o, part) in outs.iter().zip(rb.build()) {
                    env.insert(*o, cx.probe(part.boxed(), *o, "RouteBranch"));
                }
            }
            Stmt::Iterate { inp, state_out, data_out, rounds, body, stop_m, stop_r } => {
                let s = env.remove(&inp).unwrap();
                let salt = state_out as u64;
                let cx2 = cx.clone();
                let (st, data) = s.iterate(
                    rounds,
                    LState::default(),
                    move |s, st| build_chain(s.boxed(), &body, data_out, Some(st), &cx2),
                    |d: &mut i64, r: Rec| *d = d.wrapping_add(r.v),
                    |st: &mut LState, d: i64| st.acc = st.acc.wrapping_add(d),
                    move |st: &mut LState| loop_cond(st, stop_m, stop_r),
                );
                env.insert(state_out, cx.probe(st.map(move |st| f_state_rec(&st, salt)).boxed(), state_out, "IterateState"));
                env.insert(data_out, cx.probe(data.boxed(), data_out, "IterateOut"));
            }
            Stmt::Sink { inp, kind } => {
                let s = env.remove(&inp).unwrap();
                let h = match kind {
                    SinkKind::CollectVec => SinkHandle::Vec(s.collect_vec()),
                    SinkKind::Collect => SinkHandle::Vec(s.collect::<Vec<Rec>>()),
                    SinkKind::CollectVecAll => SinkHandle::Vec(s.collect_vec_all()),
                    SinkKind::CollectCount => SinkHandle::Count(s.collect_count()),
                    SinkKind::CollectChannel => SinkHandle::Channel(s.collect_channel()),
                    SinkKind::ForEach => {
                        let shared = cx.for_each.clone();
                        s.for_each(move |r| shared.lock().unwrap().entry(inp).or_default().push(r));
                        SinkHandle::ForEach
                    }
                };
                sinks.push((inp, kind, h));
            }
        }
    }
    assert!(env.is_empty(), "program leaves streams without a sink");
    sinks
}

pub fn finish_sinks(handles: Vec<(Var, SinkKind, SinkHandle)>) -> Vec<SinkResult> {
    handles
        .into_iter()
        .map(|(var, kind, h)| match h {
            SinkHandle::Vec(o) => SinkResult { var, kind, data: o.get(), count: None, channel_closed: None },
            SinkHandle::Count(o) => SinkResult { var, kind, data: None, count: o.get(), channel_closed: None },
            SinkHandle::Channel(rx) => {
                let mut v = Vec::new();
                let closed;
                // the sink's thread reports its end slightly before its channel end is dropped:
                // allow a generous time for the disconnection before calling it "still connected"
                let mut silent_since = std::time::Instant::now();
                loop {
                    match rx.recv_timeout(std::time::Duration::from_millis(200)) {
                        Ok(r) => {
                            v.push(r);
                            silent_since = std::time::Instant::now();
                        }
                        Err(flume::RecvTimeoutError::Disconnected) => {
                            closed = true;
                            break;
                        }
                        Err(flume::RecvTimeoutError::Timeout) => {
                            if silent_since.elapsed() > std::time::Duration::from_secs(10) {
                                closed = false;
                                break;
                            }
                        }
                    }
                }
                SinkResult { var, kind, data: Some(v), count: None, channel_closed: Some(closed) }
            }
            SinkHandle::ForEach => SinkResult { var, kind, data: None, count: None, channel_closed: None },
        })
        .collect()
}
