//! Random program generator with a determinism discipline: a correct engine can never be flagged
//! because of the generated program (order-sensitive forms only on totally ordered streams,
//! forward connections only towards blocks where every consumer replica has a producer, ...).

use std::collections::HashMap;

use super::types::*;
use crate::rng::Rng;

#[derive(Clone, Copy, Debug, PartialEq, Eq)]
pub enum Focus {
    /// everything (C01)
    All,
    /// aggregations (C07)
    Agg,
    /// joins (C08)
    Join,
    /// split / route / merge / zip / broadcast (C09)
    Fan,
    /// sequential chains (C16)
    Seq,
    /// loops (C05, C10)
    Loops,
    /// many batches per link, several links per producer (C02, C03)
    Links,
}

#[derive(Clone, Debug)]
pub struct GenCfg {
    pub focus: Focus,
    pub max_input: usize,
    pub loops: bool,
    pub max_steps: usize,
}

#[derive(Clone, Copy, Debug)]
struct VarInfo {
    id: Var,
    rep: Rep,
    total: bool,
    /// upper bound on the number of elements (to keep joins / flat maps / loops small)
    size: usize,
}

pub struct Generated {
    pub program: Program,
    /// Vars whose content is a deterministic sequence on a single replica.
    pub total_order: Vec<Var>,
    /// probe label -> property class, used to attribute a mismatch
    pub ops_used: Vec<String>,
}

struct G<'a> {
    rng: &'a mut Rng,
    cfg: &'a GenCfg,
    stmts: Vec<Stmt>,
    inputs: Vec<Vec<Rec>>,
    open: Vec<VarInfo>,
    next: Var,
    next_id: u64,
    total: Vec<Var>,
    ops_used: Vec<String>,
}

impl<'a> G<'a> {
    fn fresh(&mut self) -> Var {
        self.next += 1;
        assert!(self.next < 60, "too many variables");
        self.next
    }

    fn gen_input(&mut self) -> Vec<Rec> {
        let max = self.cfg.max_input;
        let n = match self.rng.below(10) {
            0 => 0,
            1 => 1,
            2 => self.rng.usize(2, 6),
            3..=6 => self.rng.usize(10, 120.min(max)),
            _ => self.rng.usize(100.min(max), max),
        };
        let mut keys = match self.rng.below(5) {
            0 => 1,
            1 => 2,
            2 => 3,
            3 => 8,
            _ => 50,
        };
        let mut n = n;
        // occasionally far more distinct keys than any per-replica table is likely to expect
        if self.cfg.focus == Focus::Agg && max >= 400 && self.rng.chance(1, 25) {
            keys = 30_000;
            n = 40_000;
        }
        let skew = self.rng.chance(1, 3);
        (0..n)
            .map(|_| {
                self.next_id += 1;
                let k = if skew && self.rng.chance(3, 4) {
                    0
                } else {
                    self.rng.below(keys) as u32
                };
                Rec {
                    id: self.next_id,
                    k,
                    v: self.rng.range(-1000, 1000),
                }
            })
            .collect()
    }

    fn source(&mut self, force_seq: bool) -> VarInfo {
        let input = self.gen_input();
        let size = input.len();
        self.inputs.push(input);
        let parallel = !force_seq && self.rng.chance(2, 3);
        let out = self.fresh();
        self.stmts.push(Stmt::Source {
            out,
            parallel,
            input: (self.inputs.len() - 1) as u32,
        });
        let v = VarInfo {
            id: out,
            rep: if parallel { Rep::Unlimited } else { Rep::One },
            total: !parallel,
            size,
        };
        if v.total {
            self.total.push(out);
        }
        v
    }

    fn push_op(&mut self, v: VarInfo, op: UOp, rep: Rep, total: bool, size: usize) -> VarInfo {
        let out = self.fresh();
        self.ops_used.push(super::build::op_label(&op));
        self.stmts.push(Stmt::Op { inp: v.id, out, op });
        if total {
            self.total.push(out);
        }
        VarInfo {
            id: out,
            rep,
            total,
            size,
        }
    }

    fn make_unlimited(&mut self, v: VarInfo) -> VarInfo {
        if v.rep == Rep::Unlimited {
            v
        } else {
            self.push_op(v, UOp::Shuffle, Rep::Unlimited, false, v.size)
        }
    }

    fn agg(&mut self) -> Agg {
        *self.rng.pick(&AGGS)
    }

    fn simple_op(&mut self) -> UOp {
        match self.rng.below(5) {
            0 | 1 => UOp::Map {
                mul: self.rng.range(-3, 5),
                add: self.rng.range(-10, 10),
            },
            2 => UOp::Filter {
                m: self.rng.range(2, 5),
                r: self.rng.range(0, 1),
            },
            3 => UOp::FlatMap { c: self.rng.below(3) + 1 },
            _ => UOp::ReKey { m: self.rng.range(1, 9) as u32 },
        }
    }

    fn keyed_agg_op(&mut self) -> UOp {
        let a = self.agg();
        match self.rng.below(9) {
            0 => UOp::GroupByFold(a),
            1 => UOp::GroupByReduce(a),
            2 => UOp::GroupByFold2(a),
            3 => UOp::GroupByReduce2(a),
            4 => UOp::GroupBySum,
            5 => UOp::GroupByCount,
            6 => UOp::GroupByAvg,
            7 => UOp::GroupByMin,
            _ => UOp::GroupByMax,
        }
    }

    fn global_agg_op(&mut self) -> UOp {
        let a = self.agg();
        match self.rng.below(4) {
            0 => UOp::Fold(a),
            1 => UOp::Reduce(a),
            2 => UOp::FoldAssoc(a),
            _ => UOp::ReduceAssoc(a),
        }
    }

    fn split_join(&mut self) -> UOp {
        UOp::SplitJoin {
            kind: *self.rng.pick(&[JoinKind::Inner, JoinKind::Left, JoinKind::Outer]),
            local: *self.rng.pick(&[JoinLocal::Hash, JoinLocal::SortMerge]),
            m: self.rng.range(1, 6) as u32,
        }
    }

    fn batch_spec(&mut self) -> BatchSpec {
        random_batch(self.rng)
    }

    /// A loop body: ops from the sub-algebra. `iterate`: the body must end in an Unlimited block
    /// and must not grow or change the replication downwards.
    fn body(&mut self, iterate: bool, depth: usize, in_size: usize) -> Vec<UOp> {
        // stress shape for stateful two-input operators inside loops: keys and values change
        // with the loop state, then a self join (small key space, so that keys that are unmatched
        // in one round coincide with keys of the previous round)
        if !iterate && depth == 0 && in_size <= 30 && matches!(self.cfg.focus, Focus::Loops | Focus::Join) && self.rng.chance(1, 3) {
            let mut ops = vec![UOp::MapState, UOp::ReKey { m: self.rng.range(2, 4) as u32 }];
            ops.push(UOp::SplitJoin {
                kind: *self.rng.pick(&[JoinKind::Outer, JoinKind::Left, JoinKind::Outer]),
                local: *self.rng.pick(&[JoinLocal::SortMerge, JoinLocal::Hash, JoinLocal::SortMerge]),
                m: self.rng.range(2, 5) as u32,
            });
            if self.rng.chance(1, 2) {
                ops.push(UOp::GroupByFold(Agg::Sum));
            }
            return ops;
        }
        let n = self.rng.usize(1, 4);
        let mut ops = Vec::new();
        let mut rep = Rep::Unlimited;
        let mut size = in_size;
        for _ in 0..n {
            let fan = self.cfg.focus == Focus::Fan && size <= 300 && self.rng.chance(1, 3);
            let join_focus = !iterate && matches!(self.cfg.focus, Focus::Join | Focus::Loops) && size <= 40 && self.rng.chance(1, 3);
            let op = match if fan { 11 } else if join_focus { 100 } else { self.rng.below(12) } {
                100 => self.split_join(),
                0 | 1 => UOp::Map { mul: self.rng.range(-2, 3), add: self.rng.range(-5, 5) },
                2 => UOp::MapState,
                3 => UOp::Filter { m: self.rng.range(2, 5), r: 0 },
                4 if !iterate && size <= 200 => UOp::FlatMap { c: self.rng.below(2) + 1 },
                5 => UOp::ReKey { m: self.rng.range(1, 6) as u32 },
                6 => UOp::Shuffle,
                7 => self.keyed_agg_op(),
                8 if !iterate => self.global_agg_op(),
                9 => UOp::CountWindow { n: self.rng.usize(1, 4), s: 1, exact: self.rng.chance(1, 2), content: false },
                10 if !iterate && size <= 40 => self.split_join(),
                11 if size <= 300 => UOp::SplitZip { m: self.rng.range(2, 4), m2: self.rng.range(2, 4) },
                10 if !iterate && depth == 0 && size <= 100 => {
                    let body = self.body(false, depth + 1, size);
                    UOp::Replay { rounds: self.rng.usize(1, 3), body, stop_m: self.rng.range(2, 5), stop_r: self.rng.range(0, 1) }
                }
                _ => UOp::MapState,
            };
            // replay needs an unlimited input block
            if matches!(op, UOp::Replay { .. }) && rep != Rep::Unlimited {
                ops.push(UOp::Shuffle);
            }
            if (fan && matches!(op, UOp::SplitZip { .. })) || (join_focus && self.rng.chance(1, 2)) {
                // a state-dependent map first: sizes / keys then change from round to round
                ops.push(UOp::MapState);
            }
            match &op {
                UOp::Shuffle | UOp::GroupByFold(_) | UOp::GroupByReduce(_) | UOp::GroupByFold2(_)
                | UOp::GroupByReduce2(_) | UOp::GroupBySum | UOp::GroupByCount | UOp::GroupByAvg
                | UOp::GroupByMin | UOp::GroupByMax | UOp::CountWindow { .. } | UOp::Replay { .. } => rep = Rep::Unlimited,
                UOp::SplitJoin { .. } => {
                    rep = Rep::Unlimited;
                    size = size * size;
                }
                UOp::Fold(_) | UOp::Reduce(_) | UOp::FoldAssoc(_) | UOp::ReduceAssoc(_) | UOp::SplitZip { .. } => rep = Rep::One,
                UOp::FlatMap { c } => size *= *c as usize,
                _ => {}
            }
            ops.push(op);
        }
        if iterate && rep != Rep::Unlimited {
            ops.push(UOp::Shuffle);
        }
        ops
    }

    fn step(&mut self) {
        if self.open.is_empty() {
            let v = self.source(self.cfg.focus == Focus::Seq);
            self.open.push(v);
            return;
        }
        let i = self.rng.below(self.open.len() as u64) as usize;
        let v = self.open.swap_remove(i);
        let f = self.cfg.focus;
        // weights: (simple, keyed agg, global agg, shuffle/replicate, join, fan, loop, misc)
        let w: [u64; 8] = match f {
            Focus::All => [6, 4, 2, 4, 4, 4, 3, 4],
            Focus::Agg => [3, 10, 5, 3, 0, 1, 1, 2],
            Focus::Join => [3, 1, 0, 3, 12, 1, 3, 1],
            Focus::Fan => [3, 1, 0, 3, 1, 12, 4, 2],
            Focus::Seq => [10, 0, 2, 1, 0, 2, 0, 2],
            Focus::Loops => [3, 2, 1, 3, 1, 1, 12, 1],
            Focus::Links => [4, 3, 1, 8, 3, 5, 1, 2],
        };
        let total: u64 = w.iter().sum();
        let mut r = self.rng.below(total);
        let mut class = 0;
        for (j, x) in w.iter().enumerate() {
            if r < *x {
                class = j;
                break;
            }
            r -= x;
        }
        match class {
            0 => {
                let op = self.simple_op();
                let size = match &op {
                    UOp::FlatMap { c } => v.size * *c as usize,
                    _ => v.size,
                };
                if size > 20_000 {
                    self.open.push(v);
                    return;
                }
                let nv = self.push_op(v, op, v.rep, v.total, size);
                self.open.push(nv);
            }
            1 => {
                let op = self.keyed_agg_op();
                let nv = self.push_op(v, op, Rep::Unlimited, false, v.size);
                self.open.push(nv);
            }
            2 => {
                let op = self.global_agg_op();
                let nv = self.push_op(v, op, Rep::One, true, 1);
                self.open.push(nv);
            }
            3 => {
                let (op, rep, total) = match self.rng.below(7) {
                    0 | 1 | 2 => (UOp::Shuffle, Rep::Unlimited, false),
                    3 => (UOp::Replicate(Rep::One), Rep::One, v.total),
                    4 if v.rep.forward_ok(Rep::Host) => (UOp::Replicate(Rep::Host), Rep::Host, false),
                    5 => {
                        let n = self.rng.below(4) + 1;
                        if v.rep.forward_ok(Rep::Limited(n)) {
                            (UOp::Replicate(Rep::Limited(n)), Rep::Limited(n), false)
                        } else {
                            (UOp::Shuffle, Rep::Unlimited, false)
                        }
                    }
                    _ => (UOp::Batch(self.batch_spec()), v.rep, v.total),
                };
                let nv = self.push_op(v, op, rep, total, v.size);
                self.open.push(nv);
            }
            4 => {
                // join with another open stream or a new source
                let other = if !self.open.is_empty() && self.rng.chance(1, 2) {
                    let j = self.rng.below(self.open.len() as u64) as usize;
                    self.open.swap_remove(j)
                } else {
                    self.source(false)
                };
                if v.size * other.size > 60_000 {
                    // too large a product for a single key: keep both, do nothing
                    self.open.push(v);
                    self.open.push(other);
                    return;
                }
                let ship = match self.rng.below(6) {
                    0 | 1 => JoinShip::Hash,
                    2 | 3 => JoinShip::BroadcastRight,
                    4 => JoinShip::Keyed,
                    _ => JoinShip::KeyedMixed,
                };
                let kind = match (ship, self.rng.below(3)) {
                    (JoinShip::KeyedMixed, _) => JoinKind::Inner,
                    (JoinShip::BroadcastRight, 2) => JoinKind::Left,
                    (JoinShip::Keyed, 1) => JoinKind::Inner,
                    (_, 0) => JoinKind::Inner,
                    (_, 1) => JoinKind::Left,
                    _ => JoinKind::Outer,
                };
                let local = if self.rng.chance(1, 2) { JoinLocal::Hash } else { JoinLocal::SortMerge };
                let (a, b) = if self.rng.chance(1, 2) { (v, other) } else { (other, v) };
                let out = self.fresh();
                self.ops_used.push(format!("Join{kind:?}{ship:?}{local:?}"));
                self.stmts.push(Stmt::Join { a: a.id, b: b.id, out, kind, ship, local });
                let rep = if ship == JoinShip::BroadcastRight { a.rep } else { Rep::Unlimited };
                self.open.push(VarInfo { id: out, rep, total: false, size: (a.size * b.size).max(a.size + b.size) });
            }
            5 => match self.rng.below(7) {
                0 => {
                    let n = self.rng.usize(2, 4);
                    let outs: Vec<Var> = (0..n).map(|_| self.fresh()).collect();
                    self.ops_used.push("Split".into());
                    self.stmts.push(Stmt::Split { inp: v.id, outs: outs.clone() });
                    for o in outs {
                        if v.total {
                            self.total.push(o);
                        }
                        self.open.push(VarInfo { id: o, ..v });
                    }
                }
                1 => {
                    let n = self.rng.usize(1, 4);
                    let preds: Vec<usize> = (0..n).map(|_| self.rng.below(5) as usize).collect();
                    let outs: Vec<Var> = (0..n).map(|_| self.fresh()).collect();
                    self.ops_used.push("Route".into());
                    self.stmts.push(Stmt::Route { inp: v.id, preds, outs: outs.clone() });
                    for o in outs {
                        // all producers send to one consumer replica of each route: a single
                        // producer keeps the sequence, several do not
                        let total = v.total;
                        if total {
                            self.total.push(o);
                        }
                        self.open.push(VarInfo { id: o, rep: v.rep, total, size: v.size });
                    }
                }
                2 | 3 => {
                    let other = if !self.open.is_empty() && self.rng.chance(2, 3) {
                        let j = self.rng.below(self.open.len() as u64) as usize;
                        self.open.swap_remove(j)
                    } else {
                        self.source(false)
                    };
                    let (a, b) = if v.rep == other.rep { (v, other) } else { (self.make_unlimited(v), self.make_unlimited(other)) };
                    let out = self.fresh();
                    self.ops_used.push("Merge".into());
                    self.stmts.push(Stmt::Merge { a: a.id, b: b.id, out });
                    self.open.push(VarInfo { id: out, rep: a.rep, total: false, size: a.size + b.size });
                }
                4 => {
                    let other = if !self.open.is_empty() && self.rng.chance(2, 3) {
                        let j = self.rng.below(self.open.len() as u64) as usize;
                        self.open.swap_remove(j)
                    } else {
                        let seq = self.rng.chance(1, 2);
                        self.source(seq)
                    };
                    let (mut a, mut b) = if v.rep == other.rep { (v, other) } else { (self.make_unlimited(v), self.make_unlimited(other)) };
                    if a.rep == Rep::Unlimited && b.rep == Rep::Unlimited && self.rng.chance(1, 4) {
                        // one replica per host on both inputs: the zip block must still be a single replica
                        a = self.push_op(a, UOp::Replicate(Rep::Host), Rep::Host, false, a.size);
                        b = self.push_op(b, UOp::Replicate(Rep::Host), Rep::Host, false, b.size);
                    }
                    let positional = a.total && b.total;
                    let out = self.fresh();
                    self.ops_used.push("Zip".into());
                    self.stmts.push(Stmt::Zip { a: a.id, b: b.id, out, positional });
                    if positional {
                        self.total.push(out);
                    }
                    self.open.push(VarInfo { id: out, rep: Rep::One, total: positional, size: a.size.min(b.size) });
                }
                5 if self.rng.chance(1, 2) => {
                    let v = if v.rep == Rep::Unlimited && self.rng.chance(1, 4) {
                        self.push_op(v, UOp::Replicate(Rep::Host), Rep::Host, false, v.size)
                    } else {
                        v
                    };
                    let op = UOp::SplitZip { m: self.rng.range(2, 4), m2: self.rng.range(2, 4) };
                    let nv = self.push_op(v, op, Rep::One, false, v.size);
                    self.open.push(nv);
                }
                _ => {
                    let nv = self.push_op(v, UOp::Broadcast, Rep::Unlimited, false, v.size);
                    self.open.push(nv);
                }
            },
            6 if self.cfg.loops => {
                let v = self.make_unlimited(v);
                if self.rng.chance(2, 3) || v.size > 60 {
                    if v.size > 400 {
                        self.open.push(v);
                        return;
                    }
                    let body = self.body(false, 0, v.size);
                    let op = UOp::Replay { rounds: self.rng.usize(0, 5), body, stop_m: self.rng.range(2, 6), stop_r: self.rng.range(0, 1) };
                    let nv = self.push_op(v, op, Rep::Unlimited, false, 1);
                    self.open.push(nv);
                } else {
                    let body = self.body(true, 0, v.size);
                    let state_out = self.fresh();
                    let data_out = self.fresh();
                    self.ops_used.push("Iterate".into());
                    self.stmts.push(Stmt::Iterate { inp: v.id, state_out, data_out, rounds: self.rng.usize(0, 4), body, stop_m: self.rng.range(2, 6), stop_r: self.rng.range(0, 1) });
                    self.open.push(VarInfo { id: state_out, rep: Rep::Unlimited, total: false, size: 1 });
                    self.open.push(VarInfo { id: data_out, rep: Rep::Unlimited, total: false, size: v.size });
                }
            }
            _ => {
                let op = match self.rng.below(4) {
                    0 => UOp::Unique { m: self.rng.below(20) + 1 },
                    1 => UOp::RichMapCount,
                    2 => UOp::CountWindow { n: self.rng.usize(1, 5), s: 1, exact: self.rng.chance(1, 2), content: v.total },
                    _ => UOp::MapMemo { m: self.rng.range(1, 12) },
                };
                let op = match op {
                    UOp::CountWindow { n, exact, content, .. } => UOp::CountWindow { n, s: self.rng.usize(1, n), exact, content },
                    o => o,
                };
                let rep = if matches!(op, UOp::MapMemo { .. }) { v.rep } else { Rep::Unlimited };
                let nv = self.push_op(v, op, rep, false, v.size);
                self.open.push(nv);
            }
        }
    }

    fn finish(&mut self) {
        while let Some(v) = self.open.pop() {
            let kind = match self.rng.below(8) {
                0 | 1 | 2 => SinkKind::CollectVec,
                3 => SinkKind::Collect,
                4 => SinkKind::CollectCount,
                5 => SinkKind::CollectChannel,
                6 => SinkKind::CollectVecAll,
                _ => SinkKind::ForEach,
            };
            self.stmts.push(Stmt::Sink { inp: v.id, kind });
        }
    }
}

pub fn random_batch(rng: &mut Rng) -> BatchSpec {
    match rng.below(8) {
        0 => BatchSpec::Single,
        1 => BatchSpec::Fixed(1),
        2 => BatchSpec::Fixed(rng.usize(2, 7)),
        3 => BatchSpec::Fixed(64),
        4 => BatchSpec::Fixed(1024),
        5 => BatchSpec::Adaptive(rng.usize(1, 100), rng.below(5) + 1),
        6 => BatchSpec::Adaptive(1024, rng.below(30) + 1),
        _ => BatchSpec::Default,
    }
}

pub fn gen_program(rng: &mut Rng, cfg: &GenCfg) -> Generated {
    let mut g = G {
        rng,
        cfg,
        stmts: Vec::new(),
        inputs: Vec::new(),
        open: Vec::new(),
        next: 0,
        next_id: 0,
        total: Vec::new(),
        ops_used: Vec::new(),
    };
    let v = g.source(cfg.focus == Focus::Seq);
    g.open.push(v);
    let steps = g.rng.usize(1, cfg.max_steps);
    for _ in 0..steps {
        if g.next > 40 {
            break;
        }
        g.step();
    }
    g.finish();
    let batch = random_batch(g.rng);
    Generated {
        program: Program {
            stmts: g.stmts,
            inputs: g.inputs,
            batch,
        },
        total_order: g.total,
        ops_used: g.ops_used,
    }
}

/// Does the program contain an `iterate` (subject to finding F8 with tiny batches)?
pub fn has_iterate(p: &Program) -> bool {
    p.stmts.iter().any(|s| matches!(s, Stmt::Iterate { .. }))
}

pub fn op_histogram(p: &Program, h: &mut HashMap<String, u64>) {
    fn ops(os: &[UOp], h: &mut HashMap<String, u64>) {
        for o in os {
            *h.entry(super::build::op_label(o)).or_default() += 1;
            if let UOp::Replay { body, .. } = o {
                ops(body, h);
            }
        }
    }
    for s in &p.stmts {
        match s {
            Stmt::Op { op, .. } => ops(std::slice::from_ref(op), h),
            Stmt::Iterate { body, .. } => {
                *h.entry("Iterate".into()).or_default() += 1;
                ops(body, h);
            }
            other => {
                let l = format!("{other:?}");
                *h.entry(l.split(|c: char| !c.is_alphanumeric()).next().unwrap().to_string()).or_default() += 1;
            }
        }
    }
}
