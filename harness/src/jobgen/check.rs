//! Monitors evaluated on a finished job: the stream-protocol grammar at every probe (C05), the
//! per-iteration content of every probe against the reference (C01/C07/C08/C09/C05), sequences
//! on totally ordered variables (C16) and sink completion (C01/C04).

use std::collections::{BTreeMap, HashMap};

use super::build::{SinkResult, RAW_FLAG};
use super::refsem::Expect;
use super::types::*;
use crate::probe::{kind_name, Ev, Trace, K_FAR, K_FLUSH_BATCH, K_ITEM, K_TERMINATE, K_TS, K_WM};

/// Which property a finding belongs to.
#[derive(Debug, Clone, Copy, PartialEq, Eq, Hash, PartialOrd, Ord)]
pub enum Class {
    /// result / content differs from the sequential meaning, no more specific class
    Result,
    /// stream control protocol
    Grammar,
    /// aggregation operator
    Agg,
    /// join operator
    Join,
    /// split / route / merge / zip / broadcast
    Fan,
    /// order on a sequential path
    Order,
    /// sink completion
    Sink,
    /// watermark contract
    Watermark,
    /// iteration content (stateful operators per round)
    Round,
}

#[derive(Debug, Clone)]
pub struct Finding {
    pub class: Class,
    pub probe: u32,
    pub label: String,
    pub msg: String,
}

pub fn class_of_label(label: &str) -> Class {
    if label.starts_with("GroupBy") || label.starts_with("Fold") || label.starts_with("Reduce") || label == "RichMapCount" || label == "Unique" {
        Class::Agg
    } else if label.starts_with("Join") || label == "SplitJoin" {
        Class::Join
    } else if ["SplitBranch", "RouteBranch", "Merge", "Zip", "ZipPairs", "Broadcast", "BroadcastRaw", "SplitZip"].contains(&label) {
        Class::Fan
    } else {
        Class::Result
    }
}

fn rec_of(e: &Ev) -> Rec {
    Rec {
        id: e.d[0],
        k: e.d[1] as u32,
        v: e.d[2] as i64,
    }
}

/// Split a trace into iterations; checks the grammar
/// ((Item|Timestamped|Watermark)* FlushAndRestart)+ Terminate and the watermark contract.
pub fn check_grammar(t: &Trace) -> (Vec<Vec<Rec>>, Vec<Finding>) {
    let mut findings = Vec::new();
    let mut iters: Vec<Vec<Rec>> = Vec::new();
    let mut cur: Vec<Rec> = Vec::new();
    let mut terminated = false;
    let mut last_wm: Option<i64> = None;
    let mut wm_since_far = 0usize;
    let mut f = |class: Class, msg: String| {
        findings.push(Finding { class, probe: t.probe, label: t.label.clone(), msg: format!("{msg} at replica {:?}", t.ctx.coord) });
    };
    for (i, e) in t.evs.iter().enumerate() {
        if terminated {
            f(Class::Grammar, format!("{} observed after Terminate (position {i})", kind_name(e.kind)));
            break;
        }
        match e.kind {
            K_ITEM | K_TS => {
                if e.kind == K_TS {
                    if let Some(w) = last_wm {
                        if e.ts <= w {
                            f(Class::Watermark, format!("element with timestamp {} after Watermark({w})", e.ts));
                        }
                    }
                }
                cur.push(rec_of(e));
            }
            K_WM => {
                if let Some(w) = last_wm {
                    if e.ts <= w {
                        f(Class::Watermark, format!("Watermark({}) after Watermark({w})", e.ts));
                    }
                }
                last_wm = Some(e.ts);
                wm_since_far += 1;
            }
            K_FAR => {
                iters.push(std::mem::take(&mut cur));
                last_wm = None;
                wm_since_far = 0;
            }
            K_TERMINATE => {
                terminated = true;
                if !cur.is_empty() {
                    f(Class::Grammar, format!("{} data elements between the last FlushAndRestart and Terminate (e.g. {:?})", cur.len(), cur[0]));
                }
                if cur.is_empty() && wm_since_far > 0 {
                    f(Class::Grammar, format!("{wm_since_far} watermarks between the last FlushAndRestart and Terminate"));
                }
                if iters.is_empty() {
                    f(Class::Grammar, "Terminate without any FlushAndRestart".to_string());
                }
            }
            K_FLUSH_BATCH => {}
            _ => {}
        }
    }
    if !terminated && !t.truncated {
        f(Class::Grammar, "trace ends without Terminate".to_string());
    }
    (iters, findings)
}

fn multiset_diff(got: &[Rec], want: &[Rec]) -> Option<String> {
    let mut g = got.to_vec();
    let mut w = want.to_vec();
    g.sort();
    w.sort();
    if g == w {
        return None;
    }
    let mut gc: BTreeMap<&Rec, i64> = BTreeMap::new();
    for r in &g {
        *gc.entry(r).or_default() += 1;
    }
    for r in &w {
        *gc.entry(r).or_default() -= 1;
    }
    let extra: Vec<_> = gc.iter().filter(|(_, c)| **c > 0).take(3).map(|(r, c)| format!("{r:?}x{c}")).collect();
    let missing: Vec<_> = gc.iter().filter(|(_, c)| **c < 0).take(3).map(|(r, c)| format!("{r:?}x{}", -c)).collect();
    Some(format!(
        "got {} elements, expected {}; unexpected: {extra:?}; missing: {missing:?}",
        g.len(),
        w.len()
    ))
}

pub struct CheckInput<'a> {
    pub traces: &'a [Trace],
    pub expect: &'a Expect,
    pub total_order: &'a [Var],
    pub sinks_expected: &'a HashMap<Var, Vec<Rec>>,
    /// per host: the sink results
    pub sinks: &'a [Vec<SinkResult>],
    pub for_each: &'a HashMap<Var, Vec<Rec>>,
    pub hosts: usize,
}

#[derive(Default, Debug)]
pub struct CheckStats {
    pub probes: u64,
    pub traces: u64,
    pub elements: u64,
    pub iterations: u64,
    pub sinks: u64,
    pub ordered_sequences: u64,
    pub per_label: BTreeMap<String, u64>,
}

pub fn check_job(inp: &CheckInput) -> (Vec<Finding>, CheckStats) {
    let mut findings = Vec::new();
    let mut stats = CheckStats::default();
    // group traces by probe
    let mut by_probe: BTreeMap<u32, Vec<&Trace>> = BTreeMap::new();
    for t in inp.traces {
        by_probe.entry(t.probe).or_default().push(t);
    }
    stats.probes = by_probe.len() as u64;
    for (probe, traces) in &by_probe {
        let label = traces[0].label.clone();
        *stats.per_label.entry(label.clone()).or_default() += 1;
        // one trace per replica
        let mut seen = std::collections::HashSet::new();
        let mut per_replica: Vec<(crate::obs::C3, Vec<Vec<Rec>>)> = Vec::new();
        let mut grammar_ok = true;
        for t in traces {
            stats.traces += 1;
            stats.elements += t.evs.len() as u64;
            if !seen.insert(t.ctx.coord) {
                findings.push(Finding { class: Class::Grammar, probe: *probe, label: label.clone(), msg: format!("replica {:?} produced elements after its Terminate", t.ctx.coord) });
                grammar_ok = false;
                continue;
            }
            let (iters, fs) = check_grammar(t);
            if !fs.is_empty() {
                grammar_ok = false;
            }
            findings.extend(fs);
            per_replica.push((t.ctx.coord, iters));
        }
        if !grammar_ok {
            continue;
        }
        let Some(expected) = inp.expect.per_probe.get(probe) else { continue };
        let niter = per_replica.iter().map(|(_, it)| it.len()).max().unwrap_or(0);
        if per_replica.iter().any(|(_, it)| it.len() != niter) {
            findings.push(Finding { class: Class::Grammar, probe: *probe, label: label.clone(), msg: format!("replicas of one block saw different numbers of iterations: {:?}", per_replica.iter().map(|(c, it)| (*c, it.len())).collect::<Vec<_>>()) });
            continue;
        }
        if niter != expected.len() {
            findings.push(Finding { class: Class::Round, probe: *probe, label: label.clone(), msg: format!("{niter} iterations observed, the sequential meaning has {}", expected.len()) });
            continue;
        }
        stats.iterations += niter as u64;
        let class = class_of_label(&label);
        let full = inp.expect.full_per_replica.contains(probe);
        let count_only = inp.expect.count_only.contains(probe);
        for it in 0..niter {
            if full {
                for (c, iters) in &per_replica {
                    if let Some(d) = multiset_diff(&iters[it], &expected[it]) {
                        findings.push(Finding { class, probe: *probe, label: label.clone(), msg: format!("iteration {it}, replica {c:?} of a broadcast did not see every element exactly once: {d}") });
                    }
                }
                continue;
            }
            let got: Vec<Rec> = per_replica.iter().flat_map(|(_, iters)| iters[it].iter().cloned()).collect();
            if count_only {
                if got.len() != expected[it].len() {
                    findings.push(Finding { class, probe: *probe, label: label.clone(), msg: format!("iteration {it}: {} pairs, expected min(|a|,|b|) = {}", got.len(), expected[it].len()) });
                }
                continue;
            }
            if probe & RAW_FLAG != 0 {
                continue;
            }
            if let Some(d) = multiset_diff(&got, &expected[it]) {
                let class = if niter > 1 && class == Class::Result { Class::Round } else { class };
                findings.push(Finding { class, probe: *probe, label: label.clone(), msg: format!("iteration {it} of {niter}: {d}") });
            } else if inp.total_order.contains(probe) && per_replica.len() == 1 {
                stats.ordered_sequences += 1;
                if got != expected[it] {
                    let pos = got.iter().zip(expected[it].iter()).position(|(a, b)| a != b);
                    findings.push(Finding { class: Class::Order, probe: *probe, label: label.clone(), msg: format!("iteration {it}: same elements but different order on a sequential path, first difference at position {pos:?}") });
                }
            }
        }
    }
    // zip pairs: no element used twice
    for (probe, traces) in &by_probe {
        if probe & RAW_FLAG == 0 || traces[0].label != "ZipPairs" {
            continue;
        }
        if inp.expect.zip_ambiguous.contains(&(probe & !RAW_FLAG)) {
            continue;
        }
        for t in traces {
            let mut left = std::collections::HashSet::new();
            let mut right = std::collections::HashSet::new();
            let mut far = 0;
            for e in &t.evs {
                match e.kind {
                    K_ITEM | K_TS => {
                        if !left.insert((far, e.d[0])) || !right.insert((far, e.d[1])) {
                            findings.push(Finding { class: Class::Fan, probe: *probe, label: "Zip".into(), msg: format!("zip used an element twice: pair ({}, {})", e.d[0], e.d[1]) });
                        }
                    }
                    K_FAR => far += 1,
                    _ => {}
                }
            }
        }
    }
    // sinks
    let mut per_sink: BTreeMap<Var, Vec<&SinkResult>> = BTreeMap::new();
    for host in inp.sinks {
        for s in host {
            per_sink.entry(s.var).or_default().push(s);
        }
    }
    for (var, rs) in &per_sink {
        stats.sinks += 1;
        let kind = rs[0].kind;
        let want = &inp.sinks_expected[var];
        let mut f = |class: Class, msg: String| findings.push(Finding { class, probe: *var, label: format!("Sink{kind:?}"), msg });
        match kind {
            SinkKind::CollectVec | SinkKind::Collect => {
                let holders: Vec<_> = rs.iter().filter(|r| r.data.is_some()).collect();
                if holders.len() != 1 {
                    f(Class::Sink, format!("{} hosts hold the result of a single-replica sink (expected exactly 1)", holders.len()));
                } else if let Some(d) = multiset_diff(holders[0].data.as_ref().unwrap(), want) {
                    f(Class::Result, format!("sink content differs from the sequential meaning: {d}"));
                } else if inp.total_order.contains(var) && holders[0].data.as_ref().unwrap() != want {
                    f(Class::Order, "sink holds the right elements in a different order although the whole path is sequential".to_string());
                }
            }
            SinkKind::CollectVecAll => {
                for (h, r) in rs.iter().enumerate() {
                    match &r.data {
                        None => f(Class::Sink, format!("host {h} holds no result for collect_vec_all")),
                        Some(d) => {
                            if let Some(d) = multiset_diff(d, want) {
                                f(Class::Result, format!("host {h}: collect_vec_all content differs: {d}"));
                            }
                        }
                    }
                }
            }
            SinkKind::CollectCount => {
                let holders: Vec<_> = rs.iter().filter_map(|r| r.count).collect();
                // an empty stream yields no count at all (a fold over nothing emits nothing)
                if want.is_empty() && holders.iter().all(|c| *c == 0) && holders.len() <= 1 {
                } else if holders.len() != 1 {
                    f(Class::Sink, format!("{} hosts hold the count (expected exactly 1)", holders.len()));
                } else if holders[0] != want.len() {
                    f(Class::Result, format!("collect_count = {}, sequential meaning has {} elements", holders[0], want.len()));
                }
            }
            SinkKind::CollectChannel => {
                let mut got = Vec::new();
                for r in rs.iter() {
                    got.extend(r.data.clone().unwrap_or_default());
                    if r.channel_closed == Some(false) {
                        f(Class::Sink, "collect_channel receiver still connected after the job ended".to_string());
                    }
                }
                if let Some(d) = multiset_diff(&got, want) {
                    f(Class::Result, format!("collect_channel content differs: {d}"));
                }
            }
            SinkKind::ForEach => {
                let got = inp.for_each.get(var).cloned().unwrap_or_default();
                if let Some(d) = multiset_diff(&got, want) {
                    f(Class::Result, format!("for_each saw different elements: {d}"));
                }
            }
        }
    }
    if per_sink.len() != inp.sinks_expected.len() {
        findings.push(Finding { class: Class::Sink, probe: 0, label: "Sink".into(), msg: "a sink handle is missing".into() });
    }
    (findings, stats)
}

pub fn _unused(_: K) {}
type K = u8;
const _: u8 = K_WM;
