//! Record type, program specification and the pure user functions shared by the engine-side
//! builder and the sequential reference (both call the *same* user functions; they differ only in
//! who evaluates the pipeline).

use renoir::Replication;
use serde::{Deserialize, Serialize};

use crate::probe::Probed;
use crate::rng::mix;

#[derive(Clone, Debug, Serialize, Deserialize, PartialEq, Eq, Hash, PartialOrd, Ord)]
pub struct Rec {
    pub id: u64,
    pub k: u32,
    pub v: i64,
}

impl Probed for Rec {
    fn words(&self) -> [u64; 3] {
        [self.id, self.k as u64, self.v as u64]
    }
}

impl Probed for (Rec, Rec, Rec) {
    fn words(&self) -> [u64; 3] {
        [self.0.id, self.1.id, self.2.id]
    }
}

impl Probed for (u32, Rec) {
    fn words(&self) -> [u64; 3] {
        [self.1.id, self.0 as u64, self.1.v as u64]
    }
}

/// State of the generated loops.
#[derive(Clone, Debug, Default, Serialize, Deserialize, PartialEq, Eq)]
pub struct LState {
    pub acc: i64,
    pub round: u32,
}

#[derive(Clone, Copy, Debug, Serialize, Deserialize, PartialEq, Eq, Hash)]
pub enum Agg {
    Sum,
    Count,
    Min,
    Max,
    Xor,
}

pub const AGGS: [Agg; 5] = [Agg::Sum, Agg::Count, Agg::Min, Agg::Max, Agg::Xor];

pub fn agg_init(a: Agg) -> i64 {
    match a {
        Agg::Sum | Agg::Count | Agg::Xor => 0,
        Agg::Min => i64::MAX,
        Agg::Max => i64::MIN,
    }
}

pub fn agg_step(a: Agg, acc: &mut i64, r: &Rec) {
    match a {
        Agg::Sum => *acc = acc.wrapping_add(r.v),
        Agg::Count => *acc += 1,
        Agg::Min => *acc = (*acc).min(r.v),
        Agg::Max => *acc = (*acc).max(r.v),
        Agg::Xor => *acc ^= r.id as i64,
    }
}

pub fn agg_merge(a: Agg, acc: &mut i64, other: i64) {
    match a {
        Agg::Sum | Agg::Count => *acc = acc.wrapping_add(other),
        Agg::Min => *acc = (*acc).min(other),
        Agg::Max => *acc = (*acc).max(other),
        Agg::Xor => *acc ^= other,
    }
}

/// Binary reduction on records used by the reduce forms (associative and commutative: the id is
/// combined with xor, the value with the aggregate).
pub fn rec_reduce(a: Agg, x: &mut Rec, y: Rec) {
    x.v = match a {
        Agg::Sum | Agg::Count => x.v.wrapping_add(y.v),
        Agg::Min => x.v.min(y.v),
        Agg::Max => x.v.max(y.v),
        Agg::Xor => x.v ^ y.v,
    };
    x.id ^= y.id;
    x.k = x.k.max(y.k);
}

pub fn keyed_result(k: u32, v: i64, salt: u64) -> Rec {
    Rec {
        id: mix(k as u64, salt),
        k,
        v,
    }
}

pub fn global_result(v: i64, salt: u64) -> Rec {
    Rec {
        id: mix(0xF01D, salt),
        k: 0,
        v,
    }
}

pub fn f_map(r: Rec, mul: i64, add: i64) -> Rec {
    Rec {
        id: mix(r.id, (mul as u64) ^ 0x3A9),
        k: r.k,
        v: r.v.wrapping_mul(mul).wrapping_add(add),
    }
}

pub fn f_filter(r: &Rec, m: i64, rem: i64) -> bool {
    r.v.rem_euclid(m) != rem
}

pub fn f_flat_map(r: Rec, c: u64) -> Vec<Rec> {
    let n = r.id % (c + 1);
    (0..n)
        .map(|j| Rec {
            id: mix(r.id, j + 0xF1A7),
            k: r.k,
            v: r.v.wrapping_add(j as i64),
        })
        .collect()
}

pub fn f_rekey(r: Rec, m: u32) -> Rec {
    Rec {
        k: r.v.rem_euclid(m as i64) as u32,
        ..r
    }
}

pub fn f_map_state(r: Rec, st: &LState) -> Rec {
    Rec {
        id: mix(r.id, 0x57A7E),
        k: r.k,
        v: r.v.wrapping_add(st.acc).wrapping_add(st.round as i64),
    }
}

pub fn f_unique_pre(r: Rec, m: u64) -> Rec {
    Rec {
        id: r.id % m,
        k: r.k % 3,
        v: 0,
    }
}

pub fn f_memo_key(r: &Rec, m: i64) -> i64 {
    r.v.rem_euclid(m)
}

pub fn f_memo(fk: i64) -> Rec {
    Rec {
        id: mix(fk as u64, 9),
        k: fk as u32,
        v: fk * 3 + 1,
    }
}

pub fn f_join_inner(l: &Rec, r: &Rec) -> Rec {
    Rec {
        id: mix(l.id, r.id),
        k: l.k,
        v: l.v.wrapping_mul(31).wrapping_add(r.v),
    }
}

pub fn f_join_left_only(l: &Rec) -> Rec {
    Rec {
        id: mix(l.id, 0x1EF7),
        k: l.k,
        v: l.v.wrapping_mul(31).wrapping_sub(7),
    }
}

pub fn f_join_right_only(r: &Rec) -> Rec {
    Rec {
        id: mix(0x816, r.id),
        k: r.k,
        v: r.v.wrapping_sub(11),
    }
}

pub fn f_zip(a: &Rec, b: &Rec) -> Rec {
    Rec {
        id: mix(a.id, b.id ^ 0x21B),
        k: a.k,
        v: a.v.wrapping_add(b.v),
    }
}

pub fn f_zip_anon() -> Rec {
    Rec {
        id: 0x21B,
        k: 0,
        v: 1,
    }
}

pub fn f_state_rec(s: &LState, salt: u64) -> Rec {
    Rec {
        id: mix(0x57A7, mix(s.round as u64, salt)),
        k: s.round,
        v: s.acc,
    }
}

pub fn loop_cond(s: &mut LState, stop_m: i64, stop_r: i64) -> bool {
    s.round += 1;
    s.acc.rem_euclid(stop_m) != stop_r
}

pub const ROUTE_PREDS: [fn(&Rec) -> bool; 5] = [
    |r| r.v.rem_euclid(2) == 0,
    |r| r.v.rem_euclid(3) == 0,
    |r| r.k % 2 == 1,
    |_| true,
    |_| false,
];

#[derive(Clone, Copy, Debug, Serialize, Deserialize, PartialEq, Eq, Hash)]
pub enum Rep {
    Unlimited,
    Limited(u64),
    Host,
    One,
}

impl Rep {
    pub fn to_engine(self) -> Replication {
        match self {
            Rep::Unlimited => Replication::Unlimited,
            Rep::Limited(n) => Replication::Limited(n),
            Rep::Host => Replication::Host,
            Rep::One => Replication::One,
        }
    }
    /// May a forward connection go from `self` to `to` without leaving consumer replicas
    /// without a producer (which the engine does not support)?
    pub fn forward_ok(self, to: Rep) -> bool {
        match (self, to) {
            (_, Rep::One) => true,
            (Rep::Unlimited, _) => true,
            (Rep::Limited(a), Rep::Limited(b)) => b <= a,
            (Rep::Host, Rep::Host) => true,
            _ => false,
        }
    }
}

#[derive(Clone, Copy, Debug, Serialize, Deserialize, PartialEq, Eq, Hash)]
pub enum Order {
    /// One replica, deterministic sequence.
    Total,
    /// Per key the arrival sequence is deterministic.
    PerKey,
    None,
}

#[derive(Clone, Copy, Debug, Serialize, Deserialize, PartialEq, Eq, Hash)]
pub enum JoinKind {
    Inner,
    Left,
    Outer,
}

#[derive(Clone, Copy, Debug, Serialize, Deserialize, PartialEq, Eq, Hash)]
pub enum JoinShip {
    Hash,
    BroadcastRight,
    /// KeyedStream::join / join_outer after two group_by
    Keyed,
    /// KeyedStream::join of a stream partitioned by group_by with one partitioned by the
    /// two-phase group_by_reduce (both must put equal keys on the same replica)
    KeyedMixed,
}

#[derive(Clone, Copy, Debug, Serialize, Deserialize, PartialEq, Eq, Hash)]
pub enum JoinLocal {
    Hash,
    SortMerge,
}

#[derive(Clone, Debug, Serialize, Deserialize, PartialEq)]
pub enum UOp {
    Map { mul: i64, add: i64 },
    Filter { m: i64, r: i64 },
    FlatMap { c: u64 },
    ReKey { m: u32 },
    /// Only inside loop bodies: reads the loop state.
    MapState,
    Shuffle,
    Replicate(Rep),
    /// broadcast() followed by a per-replica filter that keeps a partition of the elements.
    Broadcast,
    GroupByFold(Agg),
    GroupByReduce(Agg),
    GroupByFold2(Agg),
    GroupByReduce2(Agg),
    GroupBySum,
    GroupByCount,
    GroupByAvg,
    GroupByMin,
    GroupByMax,
    Fold(Agg),
    Reduce(Agg),
    FoldAssoc(Agg),
    ReduceAssoc(Agg),
    Unique { m: u64 },
    RichMapCount,
    CountWindow { n: usize, s: usize, exact: bool, content: bool },
    MapMemo { m: i64 },
    Replay { rounds: usize, body: Vec<UOp>, stop_m: i64, stop_r: i64 },
    /// split(2), filter the left branch (v % m == 0 dropped) and the right one (v % m2 == 1
    /// dropped), zip the two branches: min(|a|,|b|) pairs. Inside a loop whose body changes v
    /// per round, the longer side changes from round to round.
    SplitZip { m: i64, m2: i64 },
    /// split(2), re-key the right branch, join the two branches on the key (self join).
    SplitJoin { kind: JoinKind, local: JoinLocal, m: u32 },
    /// Change the batch mode of the current block onwards.
    Batch(BatchSpec),
}

#[derive(Clone, Copy, Debug, Serialize, Deserialize, PartialEq, Eq, Hash)]
pub enum BatchSpec {
    Single,
    Fixed(usize),
    Adaptive(usize, u64),
    Default,
}

impl BatchSpec {
    pub fn to_engine(self) -> renoir::BatchMode {
        match self {
            BatchSpec::Single => renoir::BatchMode::single(),
            BatchSpec::Fixed(n) => renoir::BatchMode::fixed(n),
            BatchSpec::Adaptive(n, ms) => {
                renoir::BatchMode::adaptive(n, std::time::Duration::from_millis(ms))
            }
            BatchSpec::Default => renoir::BatchMode::default(),
        }
    }
}

#[derive(Clone, Copy, Debug, Serialize, Deserialize, PartialEq, Eq, Hash)]
pub enum SinkKind {
    CollectVec,
    Collect,
    CollectCount,
    CollectChannel,
    CollectVecAll,
    ForEach,
}

pub type Var = u32;

#[derive(Clone, Debug, Serialize, Deserialize, PartialEq)]
pub enum Stmt {
    /// `parallel`: stream_par_iter over the index range (Unlimited) vs stream_iter (One).
    Source { out: Var, parallel: bool, input: u32 },
    Op { inp: Var, out: Var, op: UOp },
    Join { a: Var, b: Var, out: Var, kind: JoinKind, ship: JoinShip, local: JoinLocal },
    Merge { a: Var, b: Var, out: Var },
    /// `positional`: both inputs are totally ordered, pairs are compared positionally;
    /// otherwise only the number of pairs (and that no element is used twice) is checked.
    Zip { a: Var, b: Var, out: Var, positional: bool },
    Split { inp: Var, outs: Vec<Var> },
    Route { inp: Var, preds: Vec<usize>, outs: Vec<Var> },
    Iterate { inp: Var, state_out: Var, data_out: Var, rounds: usize, body: Vec<UOp>, stop_m: i64, stop_r: i64 },
    Sink { inp: Var, kind: SinkKind },
}

#[derive(Clone, Debug, Serialize, Deserialize, PartialEq)]
pub struct Program {
    pub stmts: Vec<Stmt>,
    /// Input data sets referenced by `Source::input`.
    pub inputs: Vec<Vec<Rec>>,
    pub batch: BatchSpec,
}
