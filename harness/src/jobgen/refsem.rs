//! Sequential reference semantics: evaluates a `Program` over whole inputs, one operator at a
//! time, and records for every probe point the expected content of every iteration.
//! Written from the property statements (multiset semantics, relational join, sliding groups,
//! sequential loop unrolling); it never touches the engine.

use std::collections::{BTreeMap, HashMap};

use super::build::{body_probe_id, RAW_FLAG};
use super::types::*;
use crate::winmodel::count_groups;

/// Expected content per probe id: one entry per iteration, in sequential evaluation order.
#[derive(Default, Debug, Clone)]
pub struct Expect {
    pub per_probe: HashMap<u32, Vec<Vec<Rec>>>,
    /// For zip statements: (|a|, |b|) per iteration, to check cardinality when not positional.
    pub zip_sizes: HashMap<u32, Vec<(usize, usize)>>,
    /// Zip statements whose inputs do not have unique ids (pairs cannot be told apart).
    pub zip_ambiguous: Vec<u32>,
    /// Probes whose every replica must see the complete content (raw broadcast).
    pub full_per_replica: Vec<u32>,
    /// Probes for which only the number of elements is defined (non-positional zip).
    pub count_only: Vec<u32>,
    /// Total number of loop rounds executed (all loops, all nestings).
    pub rounds: u64,
    /// The program grows beyond what is worth executing (generator safety net): skip the case.
    pub too_large: bool,
}

impl Expect {
    fn push(&mut self, id: u32, v: &[Rec]) {
        self.per_probe.entry(id).or_default().push(v.to_vec());
    }
}

fn by_key(input: &[Rec]) -> BTreeMap<u32, Vec<&Rec>> {
    let mut m: BTreeMap<u32, Vec<&Rec>> = BTreeMap::new();
    for r in input {
        m.entry(r.k).or_default().push(r);
    }
    m
}

fn keyed_agg(input: &[Rec], a: Agg, salt: u64) -> Vec<Rec> {
    by_key(input)
        .into_iter()
        .map(|(k, rs)| {
            let mut acc = agg_init(a);
            for r in rs {
                agg_step(a, &mut acc, r);
            }
            keyed_result(k, acc, salt)
        })
        .collect()
}

fn keyed_reduce(input: &[Rec], a: Agg, salt: u64) -> Vec<Rec> {
    by_key(input)
        .into_iter()
        .map(|(k, rs)| {
            let mut x = rs[0].clone();
            for r in &rs[1..] {
                rec_reduce(a, &mut x, (*r).clone());
            }
            keyed_result(k, x.v, salt ^ x.id)
        })
        .collect()
}

fn global_reduce(input: &[Rec], a: Agg, salt: u64) -> Vec<Rec> {
    if input.is_empty() {
        return vec![];
    }
    let mut x = input[0].clone();
    for r in &input[1..] {
        rec_reduce(a, &mut x, r.clone());
    }
    vec![global_result(x.v, salt ^ x.id ^ ((x.k as u64) << 40))]
}

fn global_fold(input: &[Rec], a: Agg, salt: u64) -> Vec<Rec> {
    if input.is_empty() {
        return vec![];
    }
    let mut acc = agg_init(a);
    for r in input {
        agg_step(a, &mut acc, r);
    }
    vec![global_result(acc, salt)]
}

pub fn eval_op(
    input: Vec<Rec>,
    op: &UOp,
    id: u32,
    state: Option<&LState>,
    ex: &mut Expect,
) -> Vec<Rec> {
    let salt = id as u64;
    let out: Vec<Rec> = match op {
        UOp::Map { mul, add } => input.into_iter().map(|r| f_map(r, *mul, *add)).collect(),
        UOp::Filter { m, r } => input.into_iter().filter(|x| f_filter(x, *m, *r)).collect(),
        UOp::FlatMap { c } => input.into_iter().flat_map(|r| f_flat_map(r, *c)).collect(),
        UOp::ReKey { m } => input.into_iter().map(|r| f_rekey(r, *m)).collect(),
        UOp::MapState => {
            let st = state.expect("MapState outside loop");
            input.into_iter().map(|r| f_map_state(r, st)).collect()
        }
        UOp::Shuffle | UOp::Replicate(_) => input,
        UOp::Batch(_) => return input,
        UOp::Broadcast => {
            ex.push(id | RAW_FLAG, &input);
            if !ex.full_per_replica.contains(&(id | RAW_FLAG)) {
                ex.full_per_replica.push(id | RAW_FLAG);
            }
            input
        }
        UOp::GroupByFold(a) | UOp::GroupByFold2(a) => keyed_agg(&input, *a, salt),
        UOp::GroupByReduce(a) | UOp::GroupByReduce2(a) => keyed_reduce(&input, *a, salt),
        UOp::GroupBySum => keyed_agg(&input, Agg::Sum, salt),
        UOp::GroupByCount => keyed_agg(&input, Agg::Count, salt),
        UOp::GroupByAvg => by_key(&input)
            .into_iter()
            .map(|(k, rs)| {
                let sum: f64 = rs.iter().map(|r| r.v.rem_euclid(1000) as f64).sum();
                let avg = sum / (rs.len() as f64);
                keyed_result(k, avg.to_bits() as i64, salt)
            })
            .collect(),
        UOp::GroupByMin => keyed_agg(&input, Agg::Min, salt),
        UOp::GroupByMax => keyed_agg(&input, Agg::Max, salt),
        UOp::Fold(a) | UOp::FoldAssoc(a) => global_fold(&input, *a, salt),
        UOp::Reduce(a) | UOp::ReduceAssoc(a) => global_reduce(&input, *a, salt),
        UOp::Unique { m } => {
            let mut v: Vec<Rec> = input.into_iter().map(|r| f_unique_pre(r, *m)).collect();
            v.sort();
            v.dedup();
            v
        }
        UOp::RichMapCount => by_key(&input)
            .into_iter()
            .flat_map(|(k, rs)| (1..=rs.len() as i64).map(move |c| keyed_result(k, c, c as u64)))
            .collect(),
        UOp::CountWindow { n, s, exact, content } => by_key(&input)
            .into_iter()
            .flat_map(|(k, rs)| {
                count_groups(*n, *s, *exact, rs.len())
                    .into_iter()
                    .map(|(a, b)| {
                        let v = if *content {
                            rs[a..b].iter().fold(0i64, |acc, r| acc.wrapping_mul(31).wrapping_add(r.v))
                        } else {
                            (b - a) as i64
                        };
                        keyed_result(k, v, v as u64)
                    })
                    .collect::<Vec<_>>()
            })
            .collect(),
        UOp::MapMemo { m } => input.iter().map(|r| f_memo(f_memo_key(r, *m))).collect(),
        UOp::SplitZip { m, m2 } => {
            let left = input.iter().filter(|r| r.v.rem_euclid(*m) != 0).count();
            let right = input.iter().filter(|r| r.v.rem_euclid(*m2) != 1).count();
            vec![f_zip_anon(); left.min(right)]
        }
        UOp::SplitJoin { kind, m, .. } => {
            let right: Vec<Rec> = input.iter().cloned().map(|r| f_rekey(r, *m)).collect();
            join(&input, &right, *kind)
        }
        UOp::Replay { rounds, body, stop_m, stop_r } => {
            let mut st = LState::default();
            let mut round = 0usize;
            loop {
                let out = eval_chain(input.clone(), body, id, Some(&st), ex);
                ex.rounds += 1;
                let delta = out.iter().fold(0i64, |d, r| d.wrapping_add(r.v));
                st.acc = st.acc.wrapping_add(delta);
                round += 1;
                let cont = loop_cond(&mut st, *stop_m, *stop_r) && round < *rounds;
                if !cont {
                    break;
                }
            }
            vec![f_state_rec(&st, salt)]
        }
    };
    ex.push(id, &out);
    out
}

pub fn eval_chain(
    mut v: Vec<Rec>,
    ops: &[UOp],
    parent: u32,
    state: Option<&LState>,
    ex: &mut Expect,
) -> Vec<Rec> {
    for (j, op) in ops.iter().enumerate() {
        v = eval_op(v, op, body_probe_id(parent, j), state, ex);
    }
    v
}

thread_local! {
    static TOO_LARGE: std::cell::Cell<bool> = const { std::cell::Cell::new(false) };
}

fn join(l: &[Rec], r: &[Rec], kind: JoinKind) -> Vec<Rec> {
    if l.len().saturating_mul(r.len()) > 4_000_000 {
        TOO_LARGE.with(|t| t.set(true));
        return Vec::new();
    }
    let mut out = Vec::new();
    let mut r_matched = vec![false; r.len()];
    for a in l {
        let mut matched = false;
        for (j, b) in r.iter().enumerate() {
            if a.k == b.k {
                matched = true;
                r_matched[j] = true;
                out.push(f_join_inner(a, b));
            }
        }
        if !matched && kind != JoinKind::Inner {
            out.push(f_join_left_only(a));
        }
    }
    if kind == JoinKind::Outer {
        for (j, b) in r.iter().enumerate() {
            if !r_matched[j] {
                out.push(f_join_right_only(b));
            }
        }
    }
    out
}

/// Evaluate the whole program. Returns the expectations and the value of every sink.
pub fn eval_program(p: &Program) -> (Expect, HashMap<Var, Vec<Rec>>) {
    TOO_LARGE.with(|t| t.set(false));
    let (mut ex, sinks) = eval_program_inner(p);
    ex.too_large = TOO_LARGE.with(|t| t.get()) || ex.per_probe.values().flatten().map(|v| v.len()).sum::<usize>() > 6_000_000;
    (ex, sinks)
}

fn eval_program_inner(p: &Program) -> (Expect, HashMap<Var, Vec<Rec>>) {
    let mut ex = Expect::default();
    let mut env: HashMap<Var, Vec<Rec>> = HashMap::new();
    let mut sinks = HashMap::new();
    for st in &p.stmts {
        match st {
            Stmt::Source { out, input, .. } => {
                let v = p.inputs[*input as usize].clone();
                ex.push(*out, &v);
                env.insert(*out, v);
            }
            Stmt::Op { inp, out, op } => {
                let v = env.remove(inp).unwrap();
                let o = eval_op(v, op, *out, None, &mut ex);
                env.insert(*out, o);
            }
            Stmt::Join { a, b, out, kind, ship, .. } => {
                let l = env.remove(a).unwrap();
                let mut r = env.remove(b).unwrap();
                if *ship == JoinShip::KeyedMixed {
                    // the right side is first reduced per key (sum of v, xor of ids)
                    let mut m: BTreeMap<u32, Rec> = BTreeMap::new();
                    for x in r {
                        match m.get_mut(&x.k) {
                            None => {
                                m.insert(x.k, x);
                            }
                            Some(a) => rec_reduce(Agg::Sum, a, x),
                        }
                    }
                    r = m.into_values().collect();
                }
                let o = join(&l, &r, *kind);
                ex.push(*out, &o);
                env.insert(*out, o);
            }
            Stmt::Merge { a, b, out } => {
                let mut l = env.remove(a).unwrap();
                l.extend(env.remove(b).unwrap());
                ex.push(*out, &l);
                env.insert(*out, l);
            }
            Stmt::Zip { a, b, out, positional } => {
                let l = env.remove(a).unwrap();
                let r = env.remove(b).unwrap();
                ex.zip_sizes.entry(*out).or_default().push((l.len(), r.len()));
                let distinct = |v: &[Rec]| {
                    let mut ids: Vec<u64> = v.iter().map(|r| r.id).collect();
                    ids.sort();
                    ids.windows(2).all(|w| w[0] != w[1])
                };
                if !(distinct(&l) && distinct(&r)) {
                    ex.zip_ambiguous.push(*out);
                }
                let o: Vec<Rec> = l
                    .iter()
                    .zip(r.iter())
                    .map(|(x, y)| if *positional { f_zip(x, y) } else { f_zip_anon() })
                    .collect();
                ex.push(*out, &o);
                env.insert(*out, o);
            }
            Stmt::Split { inp, outs } => {
                let v = env.remove(inp).unwrap();
                for o in outs {
                    ex.push(*o, &v);
                    env.insert(*o, v.clone());
                }
            }
            Stmt::Route { inp, preds, outs } => {
                let v = env.remove(inp).unwrap();
                let mut parts: Vec<Vec<Rec>> = vec![vec![]; outs.len()];
                for r in v {
                    if let Some(i) = preds.iter().position(|p| ROUTE_PREDS[*p](&r)) {
                        parts[i].push(r);
                    }
                }
                for (o, part) in outs.iter().zip(parts) {
                    ex.push(*o, &part);
                    env.insert(*o, part);
                }
            }
            Stmt::Iterate { inp, state_out, data_out, rounds, body, stop_m, stop_r } => {
                let mut data = env.remove(inp).unwrap();
                let mut st = LState::default();
                let mut round = 0usize;
                let last;
                loop {
                    let out = eval_chain(data, body, *data_out, Some(&st), &mut ex);
                    ex.rounds += 1;
                    let delta = out.iter().fold(0i64, |d, r| d.wrapping_add(r.v));
                    st.acc = st.acc.wrapping_add(delta);
                    round += 1;
                    let cont = loop_cond(&mut st, *stop_m, *stop_r) && round < *rounds;
                    if !cont {
                        last = out;
                        break;
                    }
                    data = out;
                }
                let s = vec![f_state_rec(&st, *state_out as u64)];
                ex.push(*state_out, &s);
                env.insert(*state_out, s);
                ex.push(*data_out, &last);
                env.insert(*data_out, last);
            }
            Stmt::Sink { inp, .. } => {
                let v = env.remove(inp).unwrap();
                sinks.insert(*inp, v);
            }
        }
    }
    (ex, sinks)
}
