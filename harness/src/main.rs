//! Verification harness for deib-polimi/noir (renoir): runtime monitors over the real engine.
//!
//! Usage: harness <PROPERTY> [--seed N] [--shard I] [--shards N] [--tier quick|thorough]
//!                           [--skip K] [--replay PATH]
//! Prints one line `REPORT {json}` on stdout; exit code 0 = shard completed, 3 = a job did not
//! return (the report printed before exiting contains the witness and the index to resume from).

mod engines;
mod jobgen;
mod obs;
mod probe;
mod report;
mod rng;
mod run;
mod winmodel;

#[derive(Debug, Clone)]
pub struct Args {
    pub prop: String,
    pub seed: u64,
    pub shard: u64,
    pub shards: u64,
    pub thorough: bool,
    pub skip: u64,
    pub replay: Option<String>,
    pub sub: Option<String>,
}

fn parse_args() -> Args {
    let mut it = std::env::args().skip(1);
    let prop = it.next().unwrap_or_else(|| {
        eprintln!("usage: harness <PROPERTY> [--seed N] [--shard I] [--shards N] [--tier T]");
        std::process::exit(2)
    });
    let mut a = Args {
        prop,
        seed: 1,
        shard: 0,
        shards: 1,
        thorough: false,
        skip: 0,
        replay: None,
        sub: None,
    };
    while let Some(k) = it.next() {
        let mut v = || it.next().expect("missing value");
        match k.as_str() {
            "--seed" => a.seed = v().parse().expect("seed"),
            "--shard" => a.shard = v().parse().expect("shard"),
            "--shards" => a.shards = v().parse().expect("shards"),
            "--tier" => a.thorough = v() == "thorough",
            "--skip" => a.skip = v().parse().expect("skip"),
            "--replay" => a.replay = Some(v()),
            "--sub" => a.sub = Some(v()),
            other => {
                eprintln!("unknown argument {other}");
                std::process::exit(2)
            }
        }
    }
    a
}

fn main() {
    let args = parse_args();
    run::set_shard(args.shard);
    // Panics of engine threads are expected in some workloads (fail-stop checks): keep stderr
    // readable by printing one short line per panic.
    std::panic::set_hook(Box::new(|info| {
        if std::env::var_os("VERIF_VERBOSE_PANICS").is_some() {
            eprintln!("{info}");
        }
    }));
    let mut report = report::Report::new(&args.prop);
    report::set_global(&mut report);
    engines::dispatch(&args, &mut report);
    report.finish();
}
