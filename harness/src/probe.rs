//! `Boxed<T>`: a type-erased operator inserted through the public `Stream::add_operator`.
//!
//! It gives run-time composed pipelines a uniform stream type and is at the same time the
//! observation point: an optional probe sees every `StreamElement` that crosses this boundary, on
//! the replica's own thread, and knows the replica's coordinates from `setup`.

use std::fmt::Display;
use std::sync::{Arc, Mutex};

use renoir::operator::{Operator, StreamElement};
use renoir::structure::BlockStructure;
use renoir::{ExecutionMetadata, Stream};

use crate::obs::{c3, C3};

pub trait ErasedOp<T>: Send {
    fn e_setup(&mut self, metadata: &mut ExecutionMetadata);
    fn e_next(&mut self) -> StreamElement<T>;
    fn e_structure(&self) -> BlockStructure;
    fn e_clone(&self) -> Box<dyn ErasedOp<T>>;
    fn e_display(&self) -> String;
}

impl<T: Send, Op: Operator<Out = T> + 'static> ErasedOp<T> for Op {
    fn e_setup(&mut self, metadata: &mut ExecutionMetadata) {
        self.setup(metadata)
    }
    fn e_next(&mut self) -> StreamElement<T> {
        self.next()
    }
    fn e_structure(&self) -> BlockStructure {
        self.structure()
    }
    fn e_clone(&self) -> Box<dyn ErasedOp<T>> {
        Box::new(self.clone())
    }
    fn e_display(&self) -> String {
        "..".to_string()
    }
}

/// Where a probe sits.
#[derive(Debug, Clone, Copy, PartialEq, Eq, Hash)]
pub struct ProbeCtx {
    pub coord: C3,
    pub global_id: u64,
    pub replicas: u64,
}

/// A per-replica observer of one operator boundary.
pub trait Probe<T>: Send {
    /// A fresh probe for another replica of the same boundary.
    fn fork(&self) -> Box<dyn Probe<T>>;
    fn setup(&mut self, ctx: ProbeCtx);
    /// Called with every element crossing the boundary, before it is handed downstream.
    fn see(&mut self, el: &StreamElement<T>);
}

pub struct Boxed<T> {
    inner: Box<dyn ErasedOp<T>>,
    probe: Option<Box<dyn Probe<T>>>,
}

impl<T> Boxed<T> {
    pub fn new<Op: Operator<Out = T> + 'static>(op: Op, probe: Option<Box<dyn Probe<T>>>) -> Self
    where
        T: Send,
    {
        Boxed {
            inner: Box::new(op),
            probe,
        }
    }
}

impl<T> Clone for Boxed<T> {
    fn clone(&self) -> Self {
        Boxed {
            inner: self.inner.e_clone(),
            probe: self.probe.as_ref().map(|p| p.fork()),
        }
    }
}

impl<T> Display for Boxed<T> {
    fn fmt(&self, f: &mut std::fmt::Formatter<'_>) -> std::fmt::Result {
        write!(f, "{}", self.inner.e_display())
    }
}

impl<T: Send + 'static> Operator for Boxed<T> {
    type Out = T;

    fn setup(&mut self, metadata: &mut ExecutionMetadata) {
        self.inner.e_setup(metadata);
        if let Some(p) = self.probe.as_mut() {
            p.setup(ProbeCtx {
                coord: c3(metadata.coord),
                global_id: metadata.global_id,
                replicas: metadata.replicas.len() as u64,
            });
        }
    }

    fn next(&mut self) -> StreamElement<T> {
        let el = self.inner.e_next();
        if let Some(p) = self.probe.as_mut() {
            p.see(&el);
        }
        el
    }

    fn structure(&self) -> BlockStructure {
        self.inner.e_structure()
    }
}

pub type BStream<T> = Stream<Boxed<T>>;

pub trait BoxExt<T: Send + 'static> {
    fn boxed(self) -> BStream<T>;
    fn probed(self, probe: Box<dyn Probe<T>>) -> BStream<T>;
}

impl<T: Send + 'static, Op: Operator<Out = T> + 'static> BoxExt<T> for Stream<Op> {
    fn boxed(self) -> BStream<T> {
        self.add_operator(|prev| Boxed::new(prev, None))
    }
    fn probed(self, probe: Box<dyn Probe<T>>) -> BStream<T> {
        self.add_operator(|prev| Boxed::new(prev, Some(probe)))
    }
}

// ---------------------------------------------------------------------------------------------
// A generic recording probe

/// One recorded element at a probe.
#[derive(Debug, Clone, Copy, PartialEq, Eq, Hash)]
pub struct Ev {
    /// 0 item, 1 timestamped, 2 watermark, 3 flush batch, 4 terminate, 5 flush and restart
    pub kind: u8,
    pub ts: i64,
    /// Up to three words extracted from the payload (id, key, value / tag).
    pub d: [u64; 3],
    /// Process-wide observation stamp: probes on the same thread are totally ordered by it.
    pub seq: u64,
}

static SEQ: std::sync::atomic::AtomicU64 = std::sync::atomic::AtomicU64::new(1);

fn next_seq() -> u64 {
    SEQ.fetch_add(1, std::sync::atomic::Ordering::Relaxed)
}

pub const K_ITEM: u8 = 0;
pub const K_TS: u8 = 1;
pub const K_WM: u8 = 2;
pub const K_FLUSH_BATCH: u8 = 3;
pub const K_TERMINATE: u8 = 4;
pub const K_FAR: u8 = 5;

pub fn kind_name(k: u8) -> &'static str {
    match k {
        K_ITEM => "Item",
        K_TS => "Timestamped",
        K_WM => "Watermark",
        K_FLUSH_BATCH => "FlushBatch",
        K_TERMINATE => "Terminate",
        K_FAR => "FlushAndRestart",
        _ => "?",
    }
}

/// Payload types that probes know how to summarise.
pub trait Probed {
    fn words(&self) -> [u64; 3];
}

pub fn ev_of<T: Probed>(el: &StreamElement<T>) -> Ev {
    match el {
        StreamElement::Item(x) => Ev {
            kind: K_ITEM,
            ts: 0,
            d: x.words(),
            seq: next_seq(),
        },
        StreamElement::Timestamped(x, ts) => Ev {
            kind: K_TS,
            ts: *ts,
            d: x.words(),
            seq: next_seq(),
        },
        StreamElement::Watermark(ts) => Ev {
            kind: K_WM,
            ts: *ts,
            d: [0; 3],
            seq: next_seq(),
        },
        StreamElement::FlushBatch => Ev {
            kind: K_FLUSH_BATCH,
            ts: 0,
            d: [0; 3],
            seq: next_seq(),
        },
        StreamElement::Terminate => Ev {
            kind: K_TERMINATE,
            ts: 0,
            d: [0; 3],
            seq: next_seq(),
        },
        StreamElement::FlushAndRestart => Ev {
            kind: K_FAR,
            ts: 0,
            d: [0; 3],
            seq: next_seq(),
        },
    }
}

/// The recorded history of one (probe, replica).
#[derive(Debug, Clone)]
pub struct Trace {
    pub probe: u32,
    pub label: String,
    pub ctx: ProbeCtx,
    pub evs: Vec<Ev>,
    /// True if the replica's probe was dropped without having seen `Terminate`.
    pub truncated: bool,
}

/// Shared sink of all traces of one job (one per host thread group; it is process-wide since all
/// hosts are threads of this process).
#[derive(Clone, Default)]
pub struct TraceSink(pub Arc<Mutex<Vec<Trace>>>);

impl TraceSink {
    pub fn new() -> Self {
        Self::default()
    }
    pub fn take(&self) -> Vec<Trace> {
        std::mem::take(&mut *self.0.lock().unwrap())
    }
}

/// Records every element (optionally without `FlushBatch`) and hands the trace to the sink when
/// the replica terminates or is dropped.
pub struct RecProbe<T> {
    id: u32,
    label: String,
    sink: TraceSink,
    ctx: Option<ProbeCtx>,
    evs: Vec<Ev>,
    done: bool,
    keep_flush_batch: bool,
    extract: fn(&StreamElement<T>) -> Ev,
}

impl<T: Probed + 'static> RecProbe<T> {
    pub fn new(id: u32, label: &str, sink: &TraceSink) -> Box<dyn Probe<T>>
    where
        T: Send,
    {
        Box::new(RecProbe {
            id,
            label: label.to_string(),
            sink: sink.clone(),
            ctx: None,
            evs: Vec::new(),
            done: false,
            keep_flush_batch: false,
            extract: ev_of::<T>,
        })
    }
}

impl<T> RecProbe<T> {
    fn flush(&mut self, truncated: bool) {
        if let Some(ctx) = self.ctx {
            self.sink.0.lock().unwrap().push(Trace {
                probe: self.id,
                label: self.label.clone(),
                ctx,
                evs: std::mem::take(&mut self.evs),
                truncated,
            });
        }
        self.done = true;
    }
}

impl<T: Send + 'static> Probe<T> for RecProbe<T> {
    fn fork(&self) -> Box<dyn Probe<T>> {
        Box::new(RecProbe {
            id: self.id,
            label: self.label.clone(),
            sink: self.sink.clone(),
            ctx: None,
            evs: Vec::new(),
            done: false,
            keep_flush_batch: self.keep_flush_batch,
            extract: self.extract,
        })
    }

    fn setup(&mut self, ctx: ProbeCtx) {
        self.ctx = Some(ctx);
    }

    fn see(&mut self, el: &StreamElement<T>) {
        let ev = (self.extract)(el);
        if ev.kind == K_FLUSH_BATCH && !self.keep_flush_batch {
            return;
        }
        let term = ev.kind == K_TERMINATE;
        // anything seen after Terminate is kept and reported as a second, truncated trace
        self.done = false;
        self.evs.push(ev);
        if term {
            self.flush(false);
        }
    }
}

impl<T> Drop for RecProbe<T> {
    fn drop(&mut self) {
        if !self.done && self.ctx.is_some() {
            self.flush(true);
        }
    }
}
