//! Per-shard result accumulator. One JSON document is printed on stdout at the end of the shard;
//! the driver (`/verif/check`) merges the shards into the evidence file and decides the exit code.

use std::collections::{BTreeMap, BTreeSet};

use serde_json::{json, Value};

#[derive(Debug, Clone, Copy, PartialEq, Eq)]
pub enum Verdict {
    Held,
    Violated,
    Inconclusive,
    /// The witness matches an open entry of known_findings.json (id attached in the detail).
    Known,
}

static GLOBAL: std::sync::atomic::AtomicPtr<Report> = std::sync::atomic::AtomicPtr::new(std::ptr::null_mut());
/// Index of the case to resume from if the shard has to exit because a job did not return.
pub static RESUME_FROM: std::sync::atomic::AtomicU64 = std::sync::atomic::AtomicU64::new(0);

/// Register the shard's report so that the emergency exit path (a job that never returns leaves
/// parked threads behind: the process must exit) can add the witness and print everything
/// accumulated so far.
pub fn set_global(r: &mut Report) {
    GLOBAL.store(r as *mut Report, std::sync::atomic::Ordering::SeqCst);
}

/// Only for the emergency exit path: the engines are not touching the report at that moment and
/// the process exits right after.
#[allow(clippy::mut_from_ref)]
pub fn global<'a>() -> Option<&'a mut Report> {
    let p = GLOBAL.load(std::sync::atomic::Ordering::SeqCst);
    if p.is_null() {
        None
    } else {
        Some(unsafe { &mut *p })
    }
}

pub struct Report {
    pub prop: String,
    pub cases: u64,
    pub held: u64,
    pub violated: u64,
    pub inconclusive: u64,
    pub known: u64,
    hashes: BTreeSet<u64>,
    counters: BTreeMap<String, u64>,
    sets: BTreeMap<String, BTreeSet<String>>,
    samples: BTreeMap<String, Vec<Value>>,
    violations: Vec<Value>,
    knowns: BTreeMap<String, (u64, Value)>,
    inconclusives: Vec<Value>,
    max_samples: usize,
    sample_skip: u32,
}

impl Report {
    pub fn new(prop: &str) -> Self {
        Report {
            prop: prop.to_string(),
            cases: 0,
            held: 0,
            violated: 0,
            inconclusive: 0,
            known: 0,
            hashes: BTreeSet::new(),
            counters: BTreeMap::new(),
            sets: BTreeMap::new(),
            samples: BTreeMap::new(),
            violations: Vec::new(),
            knowns: BTreeMap::new(),
            inconclusives: Vec::new(),
            max_samples: 2,
            sample_skip: 0,
        }
    }

    /// Record one executed case. `nontrivial` is `Some(hash of the case)` when the case is
    /// non-trivial by the engine's rule. `detail` is only evaluated when it is kept.
    pub fn case(
        &mut self,
        verdict: Verdict,
        nontrivial: Option<u64>,
        detail: impl FnOnce() -> Value,
    ) {
        self.cases += 1;
        if let Some(h) = nontrivial {
            self.hashes.insert(h);
        }
        match verdict {
            Verdict::Held => {
                self.held += 1;
                if nontrivial.is_some() {
                    self.sample_with(detail);
                }
            }
            Verdict::Violated => {
                self.violated += 1;
                if self.violations.len() < 20 {
                    self.violations.push(detail());
                }
            }
            Verdict::Inconclusive => {
                self.inconclusive += 1;
                if self.inconclusives.len() < 10 {
                    self.inconclusives.push(detail());
                }
            }
            Verdict::Known => {
                self.known += 1;
                let d = detail();
                let id = d
                    .get("finding")
                    .and_then(|v| v.as_str())
                    .unwrap_or("?")
                    .to_string();
                let e = self.knowns.entry(id).or_insert((0, d));
                e.0 += 1;
            }
        }
    }

    pub fn count(&mut self, key: &str, n: u64) {
        *self.counters.entry(key.to_string()).or_insert(0) += n;
    }

    pub fn max(&mut self, key: &str, n: u64) {
        let e = self.counters.entry(format!("max_{key}")).or_insert(0);
        if n > *e {
            *e = n;
        }
    }

    /// Record a member of a named set (distinct classes seen), at most 4000 per set.
    pub fn seen(&mut self, set: &str, member: impl Into<String>) {
        let s = self.sets.entry(set.to_string()).or_default();
        if s.len() < 4000 {
            s.insert(member.into());
        }
    }

    /// Keep at most `max_samples` samples per engine (the "engine" field of the detail); the
    /// detail of the first case of an engine is always evaluated to learn its engine name.
    fn sample_with(&mut self, detail: impl FnOnce() -> Value) {
        if self.samples.values().all(|v| v.len() >= self.max_samples) && !self.samples.is_empty() && self.sample_skip > 0 {
            self.sample_skip -= 1;
            return;
        }
        let d = detail();
        let engine = d
            .get("engine")
            .and_then(|v| v.as_str())
            .unwrap_or("?")
            .to_string();
        let v = self.samples.entry(engine).or_default();
        if v.len() < self.max_samples {
            v.push(d);
        } else {
            // all known engines are full: look again only every 64 cases (a new engine may start)
            self.sample_skip = 64;
        }
    }

    pub fn sample(&mut self, v: Value) {
        self.sample_with(|| v);
    }

    pub fn to_json(&self) -> Value {
        json!({
            "prop": self.prop,
            "cases": self.cases,
            "held": self.held,
            "violated": self.violated,
            "inconclusive": self.inconclusive,
            "known": self.known,
            "hashes": self.hashes.iter().collect::<Vec<_>>(),
            "counters": self.counters,
            "sets": self.sets,
            "samples": self.samples.values().flatten().collect::<Vec<_>>(),
            "violations": self.violations,
            "knowns": self.knowns.iter().map(|(k,(n,d))| json!({"finding":k,"count":n,"detail":d})).collect::<Vec<_>>(),
            "inconclusives": self.inconclusives,
        })
    }

    pub fn finish(&self) {
        self.finish_with(None)
    }

    pub fn finish_with(&self, resume_from: Option<u64>) {
        use std::io::Write;
        let mut j = self.to_json();
        if let Some(r) = resume_from {
            j["resume_from"] = serde_json::json!(r);
        }
        let s = serde_json::to_string(&j).unwrap();
        let out = std::io::stdout();
        let mut out = out.lock();
        writeln!(out, "REPORT {s}").unwrap();
        out.flush().unwrap();
    }
}
