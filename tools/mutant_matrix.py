#!/usr/bin/env python3
"""Applies every seeded change under /verif/seeded (agent-written ones and own ones) to /repo, runs
the owning property's check (tier from argv[1], default quick), restores /repo, and writes
/verif/seeded/matrix.json. Never leaves /repo modified."""
import glob, json, os, subprocess, sys, time
tier = sys.argv[1] if len(sys.argv) > 1 else "quick"
only = sys.argv[2:]  # optional list of entries
rows = []
entries = []
for d in sorted(glob.glob('/verif/seeded/C*-*')):
    entries.append((os.path.basename(d), os.path.basename(d).split('-')[0], d + '/patch.diff'))
for e in json.load(open('/verif/seeded/own/index.json')):
    entries.append(('own-' + e['name'], e['property'], f"/verif/seeded/own/{e['name']}.diff"))
for name, prop, patch in entries:
    if only and name not in only:
        continue
    if subprocess.run(['git', '-C', '/repo', 'diff', '--quiet']).returncode != 0:
        print('repo dirty, abort'); break
    if subprocess.run(['git', '-C', '/repo', 'apply', patch]).returncode != 0:
        rows.append({'change': name, 'property': prop, 'applies': False}); print(name, 'DOES NOT APPLY'); continue
    t0 = time.time()
    try:
        r = subprocess.run(['./check', prop, '--tier', tier], cwd='/verif', capture_output=True, text=True, timeout=3600)
        out, rc = r.stdout, r.returncode
    except subprocess.TimeoutExpired:
        out, rc = '', -1
    finally:
        subprocess.run(['git', '-C', '/repo', 'checkout', '--', '.'])
    ls = out.splitlines()
    v = [l for l in ls if l.startswith('VIOLATION')]
    first = ''
    for i, l in enumerate(ls):
        if l.startswith('VIOLATION') and i + 1 < len(ls):
            first = ls[i + 1].strip()[:240]; break
    rows.append({'change': name, 'property': prop, 'check': f'./check {prop} --tier {tier}', 'exit_code': rc,
                 'violation_lines': len(v), 'first_witness': first, 'wall_s': round(time.time() - t0, 1)})
    print(f"{name}: rc={rc} violations={len(v)} {first[:120]}", flush=True)
    json.dump({'tier': tier, 'rows': rows}, open(f'/verif/seeded/matrix_{tier}.json', 'w'), indent=1)
