#!/bin/bash
# usage: try_mutant.sh <mutant dir> <PROP> [more props...]   (VERIF_TIER / VERIF_SEED honoured)
# Applies the mutant to /repo, runs the given checks, restores /repo. Prints one line per check.
M="$1"; shift
if ! git -C /repo diff --quiet; then echo "/repo not clean"; exit 99; fi
git -C /repo apply "$M/patch.diff" || { echo "patch does not apply: $M"; exit 98; }
for P in "$@"; do
  out=$(cd /verif && timeout 3000 ./check $P 2>&1); rc=$?
  v=$(echo "$out" | grep -c "^VIOLATION")
  first=$(echo "$out" | grep -A1 "^VIOLATION" | sed -n 2p | cut -c1-300)
  echo "MUTANT $(basename $M) check=$P rc=$rc violations=$v :: $first"
  echo "$out" | tail -1
done
git -C /repo checkout -- .
