#!/bin/bash
# usage: try_own.sh  : applies every own seeded fault, builds, runs the owning check (quick)
cd /verif
python3 - <<'PY'
import json,subprocess
idx=json.load(open('/verif/seeded/own/index.json'))
for e in idx:
    n,p=e['name'],e['property']
    if subprocess.run(['git','-C','/repo','diff','--quiet']).returncode!=0:
        print('repo dirty'); break
    if subprocess.run(['git','-C','/repo','apply',f'/verif/seeded/own/{n}.diff']).returncode!=0:
        print(n,'does not apply'); continue
    b=subprocess.run(['cargo','build','--offline'],cwd='/repo',capture_output=True,text=True)
    if b.returncode!=0:
        print(n,'DOES NOT COMPILE'); subprocess.run(['git','-C','/repo','checkout','--','.']); continue
    r=subprocess.run(['./check',p],cwd='/verif',capture_output=True,text=True)
    v=[l for l in r.stdout.splitlines() if l.startswith('VIOLATION')]
    first=''
    ls=r.stdout.splitlines()
    for i,l in enumerate(ls):
        if l.startswith('VIOLATION') and i+1<len(ls): first=ls[i+1][:200]; break
    print(f"OWN {n} check={p} rc={r.returncode} violations={len(v)} :: {first}", flush=True)
    subprocess.run(['git','-C','/repo','checkout','--','.'])
PY
