#!/bin/bash
# usage: confirm_mutant.sh <dir with patch.diff demo.rs meta.json> <out.json>
# Confirms in a scratch worktree (outside /repo and /verif) that the mutant compiles, that the
# repository's own tests still pass with it, and that the demo passes without / fails with it.
set -u
M="$1"; OUT="$2"
BASE=${CONFIRM_BASE:-/tmp/confirm}
WT=$BASE/wt
export CARGO_TARGET_DIR=$BASE/target CARGO_NET_OFFLINE=true
mkdir -p $BASE /tmp/confirm
if [ ! -d "$WT" ]; then git -C /repo worktree add -q --detach "$WT" HEAD || exit 97; fi
cd "$WT" && git checkout -q --detach "$(git -C /repo rev-parse HEAD)" && git checkout -- . && rm -f tests/demo_mut.rs examples/demo_mut.rs
name=$(basename "$M")
if grep -q "fn main" "$M/demo.rs" && ! grep -q "#\[test\]" "$M/demo.rs"; then
  cp "$M/demo.rs" examples/demo_mut.rs; RUN="cargo run --offline --example demo_mut"
else
  cp "$M/demo.rs" tests/demo_mut.rs; RUN="cargo test --offline --test demo_mut -- --test-threads=1"
fi
NS="unshare -n bash -c"
timeout 900 $NS "ip link set lo up; $RUN" > /tmp/confirm/$name.demo_clean.log 2>&1; demo_clean=$?
git apply "$M/patch.diff" || { echo "{\"name\":\"$name\",\"applies\":false}" > "$OUT"; exit 1; }
timeout 900 cargo build --offline > /tmp/confirm/$name.build.log 2>&1; build=$?
timeout 900 $NS "ip link set lo up; $RUN" > /tmp/confirm/$name.demo_mut.log 2>&1; demo_mut=$?
rm -f tests/demo_mut.rs examples/demo_mut.rs
# private network namespace: the repository's remote tests bind fixed loopback ports
timeout 3000 $NS "ip link set lo up; cargo test --offline --workspace --no-fail-fast --lib --bins --tests --examples -- --test-threads=1" > /tmp/confirm/$name.suite.log 2>&1; s1=$?; timeout 3000 $NS "ip link set lo up; cargo test --offline --workspace --no-fail-fast --doc" >> /tmp/confirm/$name.suite.log 2>&1; s2=$?; suite=$((s1 + s2))
failed=$(grep -E "^test .* FAILED|^test result: FAILED" /tmp/confirm/$name.suite.log | head -5 | tr '\n' ';' | tr '"' "'")
passed=$(grep -E "^test result: ok" /tmp/confirm/$name.suite.log | sed -E 's/.* ([0-9]+) passed.*/\1/' | paste -sd+ | bc)
git checkout -- . 
echo "{\"name\":\"$name\",\"applies\":true,\"build_rc\":$build,\"demo_clean_rc\":$demo_clean,\"demo_mutant_rc\":$demo_mut,\"suite_rc\":$suite,\"suite_passed\":${passed:-0},\"suite_failed\":\"$failed\"}" > "$OUT"
cat "$OUT"
