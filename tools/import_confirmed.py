#!/usr/bin/env python3
"""Copy sub-agent mutants whose confirmation (tools/confirm_mutant.sh) succeeded into
/verif/seeded/<prop>-<name>/ with a meta.json that records the agent's description and what I
confirmed myself. usage: import_confirmed.py <results dir> <mutants root> <prefix e.g. R2_> <round>"""
import json, os, shutil, sys, glob

res_dir, root, prefix, rnd = sys.argv[1], sys.argv[2], sys.argv[3], int(sys.argv[4])
seeded = os.path.join(os.path.dirname(os.path.dirname(os.path.abspath(__file__))), "seeded")
for f in sorted(glob.glob(os.path.join(res_dir, prefix + "C*.json"))):
    r = json.load(open(f))
    base = os.path.basename(f)[len(prefix):-5]
    prop, name = base.split("_", 1)
    src = os.path.join(root, prop, name)
    ok = (r.get("applies") and r.get("build_rc") == 0 and r.get("demo_clean_rc") == 0
          and r.get("demo_mutant_rc") not in (0, None) and r.get("suite_rc") == 0 and not r.get("suite_failed"))
    dst = os.path.join(seeded, f"{prop}-{name}")
    if not ok:
        print("NOT confirmed:", base, r)
        continue
    if os.path.exists(dst):
        continue
    os.makedirs(dst)
    shutil.copy(os.path.join(src, "patch.diff"), dst)
    shutil.copy(os.path.join(src, "demo.rs"), dst)
    am = json.load(open(os.path.join(src, "meta.json")))
    meta = {
        "property": prop, "name": name, "round": rnd,
        "origin": "written by a fresh sub-agent that saw only the property text and its own scratch worktree of /repo",
        "what_breaks": am.get("what_breaks"), "needs_to_manifest": am.get("needs_to_manifest"),
        "files_changed": am.get("files_changed"),
        "agent_demonstration": am.get("how_demonstrated"),
        "confirmed_by_me": {
            "where": "scratch worktree under /tmp/confirm* of /repo (removed afterwards), every command inside a private network namespace (unshare -n)",
            "compiles": True,
            "demo_without_change": "passes (exit 0)",
            "demo_with_change": "fails (exit %s)" % r.get("demo_mutant_rc"),
            "existing_suite_with_change": "cargo test --offline --workspace --no-fail-fast -- --test-threads=1 : %s tests passed, 0 failed" % r.get("suite_passed"),
            "script": "/verif/tools/confirm_mutant.sh",
        },
    }
    json.dump(meta, open(os.path.join(dst, "meta.json"), "w"), indent=1)
    print("imported", dst)
