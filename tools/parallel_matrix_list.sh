#!/bin/bash
# usage: parallel_matrix_list.sh <workers> <tier> <out.json> <entry>...
# Like parallel_matrix.sh but for the given entries only; rows are written to <out.json>.
set -u
W=$1; TIER=$2; OUT=$3; shift 3
i=0
declare -a LISTS
for e in "$@"; do LISTS[$((i % W))]="${LISTS[$((i % W))]:-} $e"; i=$((i+1)); done
for w in $(seq 0 $((W-1))); do
  D=/tmp/mw$w
  mkdir -p $D/repo $D/verif
  rm -f $D/result.json
  rsync -a --delete --exclude target /repo/ $D/repo/
  rsync -a --delete --exclude 'target*' --exclude replays --exclude scratch /verif/ $D/verif/
  ( unshare -m bash -c "mount --bind $D/repo /repo && mount --bind $D/verif /verif && cd /verif && git -C /repo checkout -- . && python3 -u tools/mutant_matrix.py $TIER ${LISTS[$w]:-none} > $D/log 2>&1; cp /verif/seeded/matrix_$TIER.json $D/result.json" ) &
done
wait
python3 - <<PY
import json,glob
rows=[]
for f in sorted(glob.glob('/tmp/mw*/result.json')):
    rows+=json.load(open(f))['rows']
rows.sort(key=lambda r:r['change'])
json.dump({'tier':'$TIER','rows':rows},open('$OUT','w'),indent=1)
print(len(rows),'rows; not caught:',[r['change'] for r in rows if r.get('exit_code')!=1])
PY
