#!/bin/bash
# usage: parallel_matrix.sh <workers> <tier>
# Runs tools/mutant_matrix.py in <workers> private mount namespaces, each with its own copy of
# /repo and /verif bind-mounted over the real paths, so that the real /repo is never touched and
# other work can go on. Results are merged into /verif/seeded/matrix_<tier>.json.
set -u
W=${1:-4}; TIER=${2:-quick}
ENTRIES=$(python3 - <<'PY'
import glob,json,os
e=[os.path.basename(d) for d in sorted(glob.glob('/verif/seeded/C*-*'))]
e+=['own-'+x['name'] for x in json.load(open('/verif/seeded/own/index.json'))]
print(' '.join(e))
PY
)
i=0
declare -a LISTS
for e in $ENTRIES; do LISTS[$((i % W))]="${LISTS[$((i % W))]:-} $e"; i=$((i+1)); done
for w in $(seq 0 $((W-1))); do
  D=/tmp/mw$w
  mkdir -p $D/repo $D/verif
  rsync -a --delete --exclude target /repo/ $D/repo/
  rsync -a --delete --exclude 'target*' --exclude replays --exclude scratch /verif/ $D/verif/
  ( unshare -m bash -c "mount --bind $D/repo /repo && mount --bind $D/verif /verif && cd /verif && git -C /repo checkout -- . && python3 tools/mutant_matrix.py $TIER ${LISTS[$w]} > $D/log 2>&1; cp /verif/seeded/matrix_$TIER.json $D/result.json" ) &
done
wait
python3 - <<PY
import json,glob
rows=[]
for f in sorted(glob.glob('/tmp/mw*/result.json')):
    rows+=json.load(open(f))['rows']
rows.sort(key=lambda r:r['change'])
json.dump({'tier':'$TIER','rows':rows},open('/verif/seeded/matrix_$TIER.json','w'),indent=1)
print(len(rows),'rows; not caught:',[r['change'] for r in rows if r.get('exit_code')!=1])
PY
