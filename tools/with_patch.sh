#!/bin/bash
# usage: with_patch.sh [-R] <patch-file> -- <command...>
# Applies the patch to /repo's working tree, runs the command, and always restores the tree.
set -u
REV=""
if [ "$1" = "-R" ]; then REV="-R"; shift; fi
PATCH="$1"; shift
[ "$1" = "--" ] && shift
if ! git -C /repo diff --quiet; then echo "/repo working tree not clean" >&2; exit 99; fi
git -C /repo apply $REV "$PATCH" || { echo "patch does not apply" >&2; exit 98; }
"$@"
rc=$?
git -C /repo checkout -- . 
exit $rc
