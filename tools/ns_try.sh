#!/bin/bash
# usage: ns_try.sh <patch or mutant dir> <PROP> [PROP...]
# Like try_mutant.sh but in a private mount namespace over copies of /repo and /verif (the real
# /repo stays untouched, so other checks can run meanwhile).
M="$1"; shift
[ -d "$M" ] && M="$M/patch.diff"
D=/tmp/nsw
mkdir -p $D/repo $D/verif
rsync -a --delete --exclude target /repo/ $D/repo/
rsync -a --delete --exclude target-miri --exclude target-tsan --exclude replays --exclude scratch /verif/ $D/verif/
cp "$M" $D/patch.diff
unshare -m bash -c "mount --bind $D/repo /repo && mount --bind $D/verif /verif && cd /verif && git -C /repo checkout -- . && git -C /repo apply $D/patch.diff && for P in $*; do out=\$(timeout 3000 ./check \$P 2>&1); rc=\$?; echo \"NS-MUTANT $(basename $(dirname $M)) check=\$P rc=\$rc violations=\$(echo \"\$out\" | grep -c '^VIOLATION') :: \$(echo \"\$out\" | grep -A1 '^VIOLATION' | sed -n 2p | cut -c1-300)\"; echo \"\$out\" | tail -1; done"
