"""Sanitizer runs for C10 (thorough tier): the loop workloads of the harness under Miri and
ThreadSanitizer. The loop state lives in an `Arc<UnsafeCell<State>>` written by the local leader
between a barrier and a generation lock and read lock-free by user closures: this is the one
piece of `unsafe` shared memory on the data path.

  Miri: `cargo +nightly miri run` of the harness binary (local configurations only: Miri cannot
        execute the TCP path), isolation disabled (clock), several seeds.
  TSan: `-Zsanitizer=thread` with `-Zbuild-std` (std, flume, parking_lot instrumented), local and
        multi-host-in-one-process loop jobs; reports are collected with halt_on_error=0 and counted.

A tool that cannot be built or times out is recorded as inconclusive for that tool, never as a
violation. Returns a dict; `violations` lists reports (each a dict with `error`).
"""
import glob
import json
import os
import re
import subprocess
import time

ROOT = os.path.dirname(os.path.abspath(__file__))
HARNESS = os.path.join(ROOT, "harness")
SCRATCH = os.path.join(ROOT, "scratch")


def _env(extra):
    e = dict(os.environ)
    e["CARGO_NET_OFFLINE"] = "true"
    e.update(extra)
    return e


def _parse_report(out):
    for line in out.splitlines():
        if line.startswith("REPORT "):
            try:
                return json.loads(line[7:])
            except Exception:
                return None
    return None


def run_miri(seed, seeds=2):
    res = {"tool": "miri", "runs": 0, "jobs": 0, "tag_checks": 0, "reports": 0, "status": "ok"}
    violations = []
    t0 = time.time()
    for s in range(seeds):
        try:
            r = subprocess.run(
                ["cargo", "+nightly", "miri", "run", "--offline", "--", "C10", "--sub", "sanitizer-local",
                 "--seed", str(seed * 100 + s)],
                cwd=HARNESS, capture_output=True, text=True, timeout=3000,
                env=_env({"CARGO_TARGET_DIR": os.path.join(ROOT, "target-miri"),
                          "MIRIFLAGS": "-Zmiri-disable-isolation -Zmiri-ignore-leaks"}))
        except subprocess.TimeoutExpired:
            res["status"] = "inconclusive: miri run timed out"
            break
        out = r.stdout + "\n" + r.stderr
        ub = re.findall(r"error: Undefined Behavior.*|error: .*[Dd]ata race.*", out)
        rep = _parse_report(r.stdout)
        if ub:
            res["reports"] += len(ub)
            violations.append({"engine": "sanitize.miri", "seed": seed * 100 + s,
                               "error": "Miri: " + ub[0][:400],
                               "excerpt": out[out.find(ub[0]):][:3000]})
        elif rep is None:
            res["status"] = "inconclusive: miri run produced no report (exit %d): %s" % (r.returncode, out[-600:])
            break
        else:
            res["runs"] += 1
            res["jobs"] += rep.get("counters", {}).get("loop_jobs", 0)
            res["tag_checks"] += rep.get("counters", {}).get("tag_checks", 0)
            if rep.get("violated", 0):
                violations.extend(rep.get("violations", []))
    res["wall_s"] = round(time.time() - t0, 1)
    return res, violations


def run_tsan(seed, seeds=3):
    res = {"tool": "tsan", "runs": 0, "jobs": 0, "tag_checks": 0, "reports": 0, "reports_in_iteration_code": 0,
           "status": "ok"}
    violations = []
    t0 = time.time()
    target = os.path.join(ROOT, "target-tsan")
    try:
        b = subprocess.run(
            ["cargo", "+nightly", "build", "--offline", "-Zbuild-std", "--target", "x86_64-unknown-linux-gnu"],
            cwd=HARNESS, capture_output=True, text=True, timeout=3000,
            env=_env({"CARGO_TARGET_DIR": target, "RUSTFLAGS": "-Zsanitizer=thread"}))
    except subprocess.TimeoutExpired:
        res["status"] = "inconclusive: tsan build timed out"
        return res, violations
    if b.returncode != 0:
        res["status"] = "inconclusive: tsan build failed: " + b.stderr[-600:]
        return res, violations
    res["build_s"] = round(time.time() - t0, 1)
    binary = os.path.join(target, "x86_64-unknown-linux-gnu", "debug", "harness")
    os.makedirs(SCRATCH, exist_ok=True)
    for f in glob.glob(os.path.join(SCRATCH, "tsan.*")):
        os.remove(f)
    for s in range(seeds):
        try:
            r = subprocess.run(
                [binary, "C10", "--sub", "sanitizer-all", "--seed", str(seed * 100 + s)],
                cwd=ROOT, capture_output=True, text=True, timeout=1500,
                env=_env({"TSAN_OPTIONS": "halt_on_error=0 exitcode=0 report_signal_unsafe=0 log_path=%s" %
                          os.path.join(SCRATCH, "tsan")}))
        except subprocess.TimeoutExpired:
            res["status"] = "inconclusive: tsan run timed out"
            break
        rep = _parse_report(r.stdout)
        if rep is None:
            res["status"] = "inconclusive: tsan run produced no report: " + (r.stderr[-400:])
            break
        res["runs"] += 1
        res["jobs"] += rep.get("counters", {}).get("loop_jobs", 0)
        res["tag_checks"] += rep.get("counters", {}).get("tag_checks", 0)
        if rep.get("violated", 0):
            violations.extend(rep.get("violations", []))
    # collect and deduplicate reports (by the first in-repo frames, line numbers stripped)
    seen = set()
    for f in glob.glob(os.path.join(SCRATCH, "tsan.*")):
        txt = open(f, errors="replace").read()
        for block in txt.split("=================="):
            if "WARNING: ThreadSanitizer" not in block:
                continue
            res["reports"] += 1
            frames = re.findall(r"#\d+ (\S+) ", block)
            repo = [fr for fr in frames if "renoir" in fr][:4]
            key = tuple(repo)
            if key in seen:
                continue
            seen.add(key)
            in_iter = any(("iteration" in fr) or ("IterationState" in fr) for fr in repo)
            if in_iter:
                res["reports_in_iteration_code"] += 1
            violations.append({"engine": "sanitize.tsan",
                               "error": "ThreadSanitizer: " + (block.strip().splitlines()[0][:200]) +
                                        (" (iteration state code)" if in_iter else " (first in-repo frames: %s)" % ", ".join(repo)),
                               "excerpt": block[:3000]})
        os.remove(f)
    res["distinct_reports"] = len(seen)
    res["wall_s"] = round(time.time() - t0, 1)
    return res, violations


def run(seed):
    out = {"violations": []}
    m, v = run_miri(seed)
    out["miri"] = m
    out["violations"].extend(v)
    t, v = run_tsan(seed)
    out["tsan"] = t
    out["violations"].extend(v)
    return out


if __name__ == "__main__":
    import sys
    print(json.dumps(run(int(sys.argv[1]) if len(sys.argv) > 1 else 1), indent=1)[:4000])
