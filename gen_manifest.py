#!/usr/bin/env python3
"""Generates MANIFEST.json from the table below (kept in one place so it stays consistent)."""
import json, subprocess

HOOK_COMMITS = subprocess.run(
    ["git", "-C", "/repo", "log", "--format=%h %s", "--grep=^verif hooks:"],
    capture_output=True, text=True).stdout.strip().splitlines()

CHECKS = {
    "C12": dict(
        engine="winmon_count",
        category="exploration",
        text="The real CountWindow manager is driven through process() for every (size, slide, mode, length) "
             "combination with 1<=slide<=size<=8 and lengths 0..40 (exhaustive sub-space), random parameters up "
             "to size 64 and 10^4 elements, and keyed end-to-end pipelines with every window aggregator; each output "
             "is compared with the sliding-group model [jS, jS+N) written from the statement. Exploration, not proof: "
             "beyond the enumerated sub-space the claim is per sampled case.",
        design_ref="DESIGN.md section 5, C12",
        note="Trusts the harness' 15-line group model and that WindowOperator feeds the manager per key (checked by the e2e part).",
        technique="runtime monitoring: differential oracle over the real window manager (exhaustive small space + random) and end-to-end jobs",
    ),
}

NOT_YET = {}

def main():
    props = [json.loads(l) for l in open("/verif/properties.jsonl")]
    checks = []
    na = []
    for p in props:
        pid = p["id"]
        if pid in CHECKS:
            c = CHECKS[pid]
            checks.append({
                "property_id": pid,
                "quick_cmd": f"./check {pid} --tier quick",
                "thorough_cmd": f"./check {pid} --tier thorough",
                "evidence_file": f"/verif/evidence/{pid}.json",
                "replay_cmd_template": f"./check {pid} --replay {{path}}",
                "engine": c["engine"],
                "level_claimed": {"category": c["category"], "text": c["text"], "design_ref": c["design_ref"]},
                "level_note": c["note"],
                "technique": c["technique"],
            })
        else:
            na.append({"property_id": pid, "reason": NOT_YET.get(pid, "check not built yet in this session (work in progress; the design in DESIGN.md applies)")})
    engines = {}
    for pid, c in CHECKS.items():
        engines.setdefault(c["engine"], []).append(pid)
    m = {
        "version": 1,
        "setup_cmd": "cd /verif/harness && CARGO_NET_OFFLINE=true cargo build --offline",
        "hooks": {
            "guard": "cargo feature `verif` of the renoir crate (off by default)",
            "enable": "the harness crate depends on renoir with features=[\"verif\"] (path /repo); every check runs `cargo build --offline` in /verif/harness first, which rebuilds /repo's working tree with the hooks on",
            "baseline_off_cmd": "cd /repo && cargo test --workspace --no-fail-fast --offline",
            "source_commits": [l.split()[0] for l in HOOK_COMMITS],
            "add_only": True,
        },
        "engines": [{"name": e, "path": f"/verif/harness/src/engines/{e}.rs", "serves_properties": sorted(ps),
                     "kind_free_text": "runtime monitor / differential oracle over executions of the real engine"}
                    for e, ps in sorted(engines.items())],
        "checks": checks,
        "notes": "Technique family: runtime monitoring and sanitizers. `./check <id>` rebuilds the harness against /repo, "
                 "runs shard processes on all cores, writes evidence/<id>.json. Exit 0 held, 1 VIOLATION, 2 INCONCLUSIVE. "
                 "Genuine defects found on the pinned tree are listed in known_findings.json (open or fixed).",
        "not_applicable": na,
    }
    json.dump(m, open("/verif/MANIFEST.json", "w"), indent=1)
    print("checks:", len(checks), "not claimed:", len(na))

if __name__ == "__main__":
    main()
