#!/usr/bin/env python3
"""Generates MANIFEST.json from the table below (kept in one place so it stays consistent)."""
import json, subprocess

HOOK_COMMITS = subprocess.run(
    ["git", "-C", "/repo", "log", "--format=%h %s", "--grep=^verif hooks:"],
    capture_output=True, text=True).stdout.strip().splitlines()

def _c(engine, text, note, technique, category="exploration", ref=None):
    return dict(engine=engine, category=category, text=text, note=note, technique=technique, design_ref=ref)

JOBGEN_NOTE = ("Trusts the harness' sequential reference interpreter (jobgen/refsem.rs, written from the statements) and the "
               "determinism discipline of the generator (order-sensitive forms only on sequential streams).")

CHECKS = {
    "C01": _c("jobgen", "Random programs over the whole operator algebra (map/filter/flat_map, shuffles, replication changes, keyed and global "
              "aggregations, joins, merge/split/route/broadcast/zip, count windows, replay/iterate incl. nested) run on the real engine under "
              "several parallelisms, multi-host layouts (hosts as threads over loopback TCP), batch modes and injected delays; every sink and every "
              "operator boundary (probe after each operator, per iteration) is compared with a sequential reference interpreter. Sampling, not proof.",
              JOBGEN_NOTE, "runtime monitoring: differential oracle (sequential reference interpreter) over probe traces and sinks of real executions"),
    "C02": _c("linkmon", "Observer hooks at NetworkSender::send and at every NetworkReceiver receive path record, per (producer replica -> endpoint), the "
              "digest (kind, timestamp, payload hash) of every element; an offline checker requires the received sequence to equal the sent one on "
              "every local and TCP link and flags elements received on links they were never sent on. Workloads: random programs with tiny batches, "
              "payloads from 0 B to 1 MB, many replicas multiplexed on one connection, injected delays in senders, receivers and mux/demux threads.",
              "Payload identity is the hash of the bincode serialisation; hooks run before the send and after the receive returns on the acting thread.",
              "runtime monitoring: offline checker over the hooked link event log (per-link sequence equality)"),
    "C03": _c("linkmon", "Pipelines whose connection kinds the harness knows (shuffle, group-by, broadcast, forward with every replication change, joins, "
              "splits) are executed with the link log on; for each job-graph edge the routing rule of its kind is checked on the elements actually "
              "sent: exactly one consumer (same-index for forward, key->replica functional dependency for group-by, shared between both join inputs), "
              "every consumer for broadcast, conservation per edge, identical control-marker sequences on all links of a producer.",
              "The connection kind of an edge is known by construction; block ids are learnt from probes; elements are identified by payload hash.",
              "runtime monitoring: offline checker over the hooked link event log (routing rules per connection kind)"),
    "C05": _c("jobgen", "A grammar automaton ((Item|Timestamped|Watermark|FlushBatch)* FlushAndRestart)+ Terminate runs over the trace of every probe (one "
              "after every operator, on every replica) of random programs, half of them loop-heavy; inside loops the content of every operator "
              "boundary is compared per round with the sequential meaning, so a result emitted after its FlushAndRestart or state carried into the "
              "next round shows up as a per-round mismatch.",
              JOBGEN_NOTE, "runtime monitoring: online grammar automaton on probe traces + per-iteration differential oracle"),
    "C07": _c("jobgen", "Aggregation-heavy random programs: every form of the statement (fold, reduce, fold_assoc, reduce_assoc, group_by+fold/reduce, "
              "group_by_fold/reduce/sum/count/avg/min_element/max_element, keyed rich_map state) on empty, single-key, skewed and many-key inputs, in "
              "pipelines and loops; the probe right after each aggregation is compared per iteration with a sequential fold (exactly one result per "
              "key, none for empty input).",
              JOBGEN_NOTE + " User functions are associative and commutative integer functions; averages use exact f64 sums.",
              "runtime monitoring: differential oracle (sequential fold per key) on probe traces"),
    "C08": _c("jobgen", "Join-heavy random programs: inner/left/outer x ship_hash/broadcast_right x local hash/sort-merge plus keyed join/join_outer, with "
              "duplicate keys, one-sided keys and empty sides, slow-sender/receiver/network policies biasing which side arrives and ends first; the "
              "probe after the join is compared with a nested-loop relational join on unique ids.",
              JOBGEN_NOTE, "runtime monitoring: differential oracle (nested-loop relational join) on probe traces"),
    "C09": _c("jobgen", "Fan-out/fan-in-heavy random programs: split branches, routes (first matching predicate), merge, zip (positional when sequential, "
              "otherwise cardinality and no-element-twice on the recorded pairs) and broadcast (a raw probe on every downstream replica must see "
              "every element exactly once) in diamonds with shuffles, under all layouts and delay policies.",
              JOBGEN_NOTE, "runtime monitoring: set algebra on unique ids over probe traces"),
    "C10": _c("loopmon", "Replay and iterate loops whose state carries the round number: the first body operator tags each element with the round it read, "
              "every later body operator (after shuffles, on other hosts) re-reads the state and the monitor requires equality, so a stale or premature "
              "read is caught even when results are unaffected; final state, number of rounds and iterate output are compared with the sequentially "
              "unrolled loop. Delay policies slow the state-feedback and data links separately; the number of state waits that really blocked is measured. "
              "Thorough adds Miri and ThreadSanitizer runs of loop workloads over the UnsafeCell loop state.",
              "Trusts the 30-line sequential loop model; sanitizer coverage is limited to the executions produced (Miri: local configurations only).",
              "runtime monitoring: round-tag monitor on hooked user functions + differential fixed point; Miri/TSan sanitizers (thorough)"),
    "C11": _c("loopmon", "Loops whose body merges / joins / zips a stream from outside the loop: a probe right after the combination records, per round and "
              "replica, the side elements seen; every round must present the side input completely and exactly once (pairs for join/zip), the loop "
              "must run the expected number of rounds and the protocol grammar must hold (no replay of the side after the last round). Side sizes "
              "0..1200 (many batches), adaptive batching with delays below the round time, slow links.",
              "Trusts that side elements are recognisable by their reserved id range / marker value.",
              "runtime monitoring: per-round multiset comparison on probe traces + grammar automaton"),
    "C12": _c("winmon_count", "The real CountWindow manager is driven through process() for every (size, slide, mode, length) "
              "combination with 1<=slide<=size<=8 and lengths 0..40 (exhaustive sub-space), random parameters up "
              "to size 64 and 10^4 elements, and keyed end-to-end pipelines with every window aggregator; each output "
              "is compared with the sliding-group model [jS, jS+N) written from the statement. Exploration, not proof: "
              "beyond the enumerated sub-space the claim is per sampled case.",
              "Trusts the harness' 15-line group model and that WindowOperator feeds the manager per key (checked by the e2e part).",
              "runtime monitoring: differential oracle over the real window manager (exhaustive small space + random) and end-to-end jobs"),
    "C15": _c("srcmon", "File and CSV sources are run on random contents (empty file, empty lines, no final newline, CRLF, lines longer than a replica's byte "
              "range, more replicas than lines) for 1..12 replicas and multi-host layouts, every line/record carrying a unique number; the integer "
              "range splitter is called directly for all ten integer types and the returned sub-range bounds are checked for disjointness, order and "
              "exact cover without iterating (near-limit, reversed, empty, up to 2^62 elements); iterator and channel sources must emit the input as a sequence.",
              "Trusts std's split_inclusive as the definition of a line and the csv writer used to produce the files.",
              "runtime monitoring: differential oracle over real source executions; direct range-arithmetic inspection"),
    "C16": _c("jobgen", "Sequential random pipelines (one replica end to end, local(1), remote [1], and sequential segments inside larger deployments): every "
              "probe on a totally ordered variable and every collect_vec sink must equal the iterator-chain result as a sequence, for every batch "
              "mode and transport. reorder() is run on scripted timestamped sources (also inside replay loops, where every round restarts event time): "
              "output sorted, same multiset per iteration, released only under a covering watermark or the end of the iteration.",
              JOBGEN_NOTE, "runtime monitoring: sequence equality against the sequential reference on probe traces and sinks"),
    "C19": _c("graphdump", "The hook StreamContext::verif_execution_graph computes the execution graph and address map exactly as execute_blocking would, "
              "without starting threads. For a catalogue of ~45 programs covering every block shape and a grid of configurations (local 1..8, all "
              "permutations of cores {1,2,3,5,8} for 1-3 hosts, sampled 4-5 hosts, Limited(n) around per-host and total core counts) the dump of every "
              "host_id must be identical and satisfy the placement, global-id, link and address rules; a sample is executed and the links used by "
              "the workers must equal the dumped ones.",
              "Trusts that the hook calls the same build_execution_graph/NetworkTopology::build as start_blocking (it does, by construction of the hook).",
              "runtime monitoring: invariant checker on the hooked graph construction, cross-host comparison, confirmed against executed link logs"),
    "C04": _c("termination", "Every job runs under a watchdog that maintains, from the worker / network-thread / channel hooks, the state of every engine thread; a job "
              "completes when execute_blocking returned on every host, every started worker and network thread ended and each sink yielded its result on exactly one "
              "host; it is deadlocked iff a quiescence certificate is obtained (every live engine thread parked in a blocking primitive and no engine event across three "
              "snapshots) - a wall-clock cap without certificate is inconclusive. Workloads: deadlock-prone shapes (inputs far above the 16-batch channels with single-element "
              "batches, diamonds with a slow branch into zip/join/merge, replay/iterate with shuffles, nesting and side inputs, empty inputs, one-core hosts) and random programs.",
              "Absence of deadlock is 'none among the executions produced'; channel operations are the engine's only waiting points, which makes the certificate a stable fact.",
              "runtime monitoring: online thread-state census from hooks + quiescence certificate; sink-completion oracle"),
    "C06": _c("scripts", "A scripted source replays, on 1-5 replicas, random timestamp/watermark sequences that respect the contract (with forced coincidences: watermark equal to "
              "an element timestamp or a window end, silent replicas, early enders), optionally in lock-step so that the arrival order at the first Start is exact; the stream "
              "goes through shuffles, group-by, map/flat_map, fold, keyed fold, reorder, count / event-time windows, also as the body of a replay loop; a watermark automaton "
              "runs on the trace of a probe after every operator on every replica.",
              "Scripts have one iteration (several iterations come from a real replay loop, whose barrier is what synchronises replicas in real jobs).",
              "runtime monitoring: online watermark automaton on probe traces of scripted executions"),
    "C13": _c("winmon_time", "The real event-time and transaction window managers are driven through process() with random valid scripts (out-of-order arrivals, idle gaps, watermarks on "
              "window boundaries, several iterations, recycling exactly as WindowOperator does) and end-to-end with several source replicas; results are id sets checked "
              "against the rules of the statement: one interval of the window length, tumbling = exactly one result per element, sliding = 1..ceil(size/slide), fired no "
              "earlier than a watermark reaching the end and no later than the first one beyond it, nothing carried across iterations; transaction windows against a 20-line "
              "model of the user logic.",
              "Window boundaries depend on the first arrival and are not predicted; only the partition / interval / firing rules are checked.",
              "runtime monitoring: rule checker over outputs of the real window managers (scripts) and end-to-end jobs"),
    "C14": _c("winmon_time", "Processing-time (tumbling, sliding) and session window managers are driven with wall-clock pauses drawn around the window size / gap (0, s/2, just below, "
              "exact, just above, 3s) and in keyed pipelines fed through a channel source; the verdict never depends on timing: per key the results must partition the arrival "
              "sequence in order (tumbling, session) or cover each element 1..ceil(size/slide) times (sliding), none empty, everything flushed at the end.",
              "Timing only shapes the workload (classes of pauses used are reported); the oracle is timing independent.",
              "runtime monitoring: timing-independent conservation/order oracle over real window managers under wall-clock stress"),
    "C17": _c("scripts", "With the link log on, the batches a consumer replica actually received (in its own arrival order) drive a reference model of the block input written from the "
              "statement: minimum over the upstream replicas that have not ended their iteration of their latest watermark; whenever it rises, the probe right after Start "
              "must show Watermark(new minimum) before any later element. Because the expectation is computed from observed arrivals the check is schedule independent and "
              "also runs on multi-host, binary-start and in-loop jobs. Increases caused by a replica's end are the open finding F2. Between End and Start a watermark may only wait "
              "for the rest of its batch: every watermark-carrying batch on every link is checked against the capacity of the batch mode.",
              "Trusts the 40-line frontier model; arrival order is the order of Recv hook events on the consumer's own thread.",
              "runtime monitoring: reference-model monitor over hooked receive events vs. probe trace"),
    "C18": _c("latmon", "A harness thread hands bursts of fewer elements than the batch size to a channel source and then stays silent; with adaptive batching every element must reach "
              "collect_channel while the source is idle and open within 2 s + 100 x depth x max_delay (two orders of magnitude above the claim; a miss is re-run 3 times and only "
              "a reproducible one is a violation); with any mode everything must have arrived once the source is closed. Latencies are reported as multiples of depth x max_delay. "
              "Connections: shuffle, group_by, replication change, route()+merge, split()+merge. Batch-mode invariance: every generated program (sub-workload batch_equiv) and loop shapes "
              "with 40-160 elements per round (batch_loops) are executed under seven batch modes and compared with the batch-independent sequential reference; a certified non-return is a violation.",
              "The only intrinsically wall-clock property: decided on a bound far above the claim so that load cannot flip it.",
              "runtime monitoring: bounded-progress monitor at the client boundary (send/arrival times)"),
    "C20": _c("faultmon", "Crash points are enumerated: for random acyclic programs and configurations a clean run records how many elements each (operator, replica) forwards; the job is "
              "re-run with a fault injector panicking right before the first / middle / last element or the end-of-iteration marker at operators spread over the program. "
              "Oracle: execute_blocking fails on every host running the failed replica or anything downstream (closure from the hooked graph dump), no downstream sink handle "
              "holds a value, channel sinks disconnect and never deliver the unforwarded element, every worker and network thread ends (a quiescence certificate = violation).",
              "Crash points are sampled per program from the enumerated set when it exceeds the budget; hosts are threads of one process.",
              "runtime monitoring with fault injection at enumerated crash points; fail-stop oracle on outcomes and thread census", category="fault_enumeration"),

}

NOT_YET = {}

def main():
    props = [json.loads(l) for l in open("/verif/properties.jsonl")]
    checks = []
    na = []
    for p in props:
        pid = p["id"]
        if pid in CHECKS:
            c = CHECKS[pid]
            checks.append({
                "property_id": pid,
                "quick_cmd": f"./check {pid} --tier quick",
                "thorough_cmd": f"./check {pid} --tier thorough",
                "evidence_file": f"/verif/evidence/{pid}.json",
                "replay_cmd_template": f"./check {pid} --replay {{path}}",
                "engine": c["engine"],
                "level_claimed": {"category": c["category"], "text": c["text"], "design_ref": c["design_ref"] or f"DESIGN.md section 5, {pid}"},
                "level_note": c["note"],
                "technique": c["technique"],
            })
        else:
            na.append({"property_id": pid, "reason": NOT_YET.get(pid, "check not built yet in this session (work in progress; the design in DESIGN.md applies)")})
    engines = {}
    for pid, c in CHECKS.items():
        engines.setdefault(c["engine"], []).append(pid)
    m = {
        "version": 1,
        "setup_cmd": "cd /verif/harness && CARGO_NET_OFFLINE=true cargo build --offline",
        "hooks": {
            "guard": "cargo feature `verif` of the renoir crate (off by default)",
            "enable": "the harness crate depends on renoir with features=[\"verif\"] (path /repo); every check runs `cargo build --offline` in /verif/harness first, which rebuilds /repo's working tree with the hooks on",
            "baseline_off_cmd": "cd /repo && cargo test --workspace --no-fail-fast --offline",
            "source_commits": [l.split()[0] for l in HOOK_COMMITS],
            "add_only": True,
        },
        "engines": [{"name": e, "path": f"/verif/harness/src/engines/{e}.rs", "serves_properties": sorted(ps),
                     "kind_free_text": "runtime monitor / differential oracle over executions of the real engine"}
                    for e, ps in sorted(engines.items())],
        "checks": checks,
        "notes": "Technique family: runtime monitoring and sanitizers. `./check <id>` rebuilds the harness against /repo, "
                 "runs shard processes on all cores, writes evidence/<id>.json. Exit 0 held, 1 VIOLATION, 2 INCONCLUSIVE. "
                 "Genuine defects found on the pinned tree are listed in known_findings.json (open or fixed).",
        "not_applicable": na,
    }
    json.dump(m, open("/verif/MANIFEST.json", "w"), indent=1)
    print("checks:", len(checks), "not claimed:", len(na))

if __name__ == "__main__":
    main()
