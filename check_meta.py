"""Per-property texts used in the evidence files (rules for counting cases, assumptions)."""

_JOBGEN = ("one case = one (random program, input, layout, batch mode, delay policy) job of the real engine; distinct = "
           "distinct hash of (program statements, input sizes, layout, batch mode, policy); non-trivial = the probes of the job saw more "
           "than 10 elements. Programs are drawn from the operator algebra with a generator focus per property; every job is compared "
           "probe by probe and sink by sink with the sequential reference.")

RULES = {
    "C01": _JOBGEN,
    "C02": "one case = one job whose complete link log (send and receive hook events) was checked link by link; distinct = hash of (program or "
           "payload-size set, layout, batch mode, policy); non-trivial = more than 20 elements crossed links. Sub-workloads: random programs with tiny "
           "batches, payloads 0 B..1 MB on multiplexed connections, bursty producers against the batcher (emission order vs. order on the link).",
    "C03": "one case = one pipeline with known connection kinds (chains of shuffle / group-by / broadcast / forward with replication changes, "
           "joins, mixed group_by vs two-phase group_by joins, splits) executed with the link log; distinct = hash of (chains, shape, layout, batch); "
           "non-trivial = at least one edge was checked.",
    "C04": "one case = one job run under the watchdog: deadlock-prone shapes (random volume/batch/layout/policy) and random programs; distinct = "
           "hash of (shape or program, volume, layout, batch); non-trivial = more than 200 input elements (shapes) / any random program. The pinned "
           "input of finding F8 is tried a few times at the end of shard 0.",
    "C05": _JOBGEN + " Half of the programs are loop-heavy.",
    "C06": "one case = one scripted job (random valid timestamp/watermark script on 1-5 source replicas, random operator chain, layout, batch, "
           "lock-step or free running, one in four inside a replay loop); distinct = hash of (script, operators, layout, batch); non-trivial = at least "
           "one watermark was seen by the probes.",
    "C07": _JOBGEN + " Plus scripted timestamped aggregations (every global and keyed form) whose result timestamp must be the maximum input timestamp.",
    "C08": _JOBGEN,
    "C09": _JOBGEN,
    "C10": "one case = one replay/iterate job with the round-tag monitor (random body incl. shuffles, keyed sums, nested loops, side inputs on the "
           "left, artificial work; random bound and stop condition; layout, batch, delay policy); distinct = hash of (loop case, layout, batch, policy); "
           "non-trivial = at least 2 rounds expected on a non-empty input.",
    "C11": "one case = one loop job with a side input combined by merge / join / zip (side on the right or on the left), with per-round comparison "
           "at a probe right after the combination; distinct = hash of (case, layout, batch, policy); non-trivial = at least 2 rounds and a non-empty side input.",
    "C12": "direct: every (size, slide, exact, iteration lengths, timestamped) tuple is one case, "
           "enumerated exhaustively for 1<=slide<=size<=8, lengths 0..40 (1 iteration) and boundary "
           "lengths (2-3 iterations), plus seeded random tuples up to size 64; end-to-end: one case per "
           "(size, slide, exact, keys, input, aggregator, layout, batch mode). A case is non-trivial when "
           "at least one window is produced (direct) or at least two window results are expected (e2e); "
           "distinct = distinct hash of the tuple.",
    "C13": "one case = one script driven through the real event-time or transaction window manager, or one end-to-end keyed job; distinct = hash "
           "of (size, slide, script) / (script, layout); non-trivial = at least two window results (one commit for transactions).",
    "C14": "one case = one wall-clock scenario (window kind, unit 0.3-6 ms direct / 2-17 ms end-to-end, random pauses around the unit, 1-3 "
           "iterations) or one keyed job fed through a channel source; non-trivial = at least two window results.",
    "C15": "one case = one (file content, layout) or (csv content, layout) job, one (integer type, start, end, peers) range split, one parallel "
           "range job or one sequential-source job; distinct = hash of the tuple; non-trivial = at least two lines/records/elements (every range split).",
    "C16": _JOBGEN + " Generator focus: sequential chains; plus scripted reorder() jobs (sortedness, completeness, release rule with in/out probes).",
    "C17": "one case = one scripted job whose consumer replicas' observed arrivals were replayed through the reference frontier model; distinct = "
           "hash of (script, layout, start kind, connection, batch); non-trivial = the frontier rose at least once.",
    "C18": "one case = one latency scenario (pipeline depth 1-4, connection kinds, adaptive or fixed batching, batch size, max delay 2-50 ms, bursts "
           "smaller than the batch, pauses, layout; connections: shuffle, group_by, replication change, route()+merge, split()+merge); "
           "or one (generated program or loop shape, batch mode) run out of the seven batch modes each program is executed under (result compared with the "
           "batch-independent sequential reference; a certified non-return is a violation); every case is non-trivial; distinct = hash of the scenario.",
    "C19": "one case = one (catalogue program, configuration) pair evaluated once per host_id, plus sampled real executions compared with the dump; "
           "every case is non-trivial; distinct = hash of (program, layout).",
    "C20": "one case = one crash point (program, layout, batch, operator, replica, element position) enumerated from the element counts of a clean run "
           "and executed with the fault injector; every executed crash point is non-trivial; distinct = hash of the tuple.",
}

ASSUMPTIONS = {
    "C12": ["the window manager is driven through its public process() API exactly as WindowOperator does",
            "end-to-end pipelines use one producer so that per-key arrival order is determined by the input"],
    "C04": ["a wall-clock cap without a quiescence certificate is reported as inconclusive, never as a violation"],
    "C18": ["the verdict bound is 2 s + 100 x depth x max_delay; observed latencies are reported separately"],
    "C06": ["scripts respect the watermark contract per source replica by construction"],
    "C17": ["frontier increases caused by the end of a replica are the open known finding F2"],
}

EXHAUSTIVE = {
    "C12": "count-window manager: all 1<=slide<=size<=8, exact and non-exact, every length 0..40 for one "
           "iteration and all boundary-length combinations for 2 and 3 iterations",
    "C19": "configuration grid: local 1..8 and every ordered choice of cores {1,2,3,5,8} for 1, 2 and 3 hosts, for every catalogue program",
}
