"""Per-property texts used in the evidence files (rules for counting cases, assumptions)."""

RULES = {
    "C12": "direct: every (size, slide, exact, iteration lengths, timestamped) tuple is one case, "
           "enumerated exhaustively for 1<=slide<=size<=8, lengths 0..40 (1 iteration) and boundary "
           "lengths (2-3 iterations), plus seeded random tuples up to size 64; end-to-end: one case per "
           "(size, slide, exact, keys, input, aggregator, layout, batch mode). A case is non-trivial when "
           "at least one window is produced (direct) or at least two window results are expected (e2e); "
           "distinct = distinct hash of the tuple.",
}

ASSUMPTIONS = {
    "C12": ["the window manager is driven through its public process() API exactly as WindowOperator does",
            "end-to-end pipelines use one producer so that per-key arrival order is determined by the input"],
}

EXHAUSTIVE = {
    "C12": "count-window manager: all 1<=slide<=size<=8, exact and non-exact, every length 0..40 for one "
           "iteration and all boundary-length combinations for 2 and 3 iterations",
}
